#!/bin/sh
# Runs the repository's pinned test command (guard off) and compares the
# result with BASELINE.json's stable_pass list.  Output: /var/tmp/baseline.<tag>.txt
TAG=${1:-run}
OUT=/var/tmp/baseline.$TAG
cd /repo && env -u PYTHON_SOCKETIO_VERIF /venv/bin/python -m pytest -ra -q -p no:cacheprovider --timeout=900 --continue-on-collection-errors --junitxml=$OUT.xml > $OUT.log 2>&1
/venv/bin/python - "$OUT.xml" > $OUT.txt <<'PY'
import json, sys, xml.etree.ElementTree as ET
b = json.load(open('/root/.vp/BASELINE.json'))
want = set(b['stable_pass'])
ok = set()
for tc in ET.parse(sys.argv[1]).getroot().iter('testcase'):
    bad = any(ch.tag in ('failure', 'error', 'skipped') for ch in tc)
    name = tc.get('classname') + '::' + tc.get('name')
    if not bad:
        ok.add(name)
missing = sorted(want - ok)
print('stable_pass %d, passed now %d, missing %d' % (len(want), len(ok & want), len(missing)))
for m in missing:
    print('MISSING', m)
PY
cat $OUT.txt
