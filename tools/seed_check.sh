#!/bin/sh
# tools/seed_check.sh <patch.diff> <Cnn> [tier]
# Applies a seeded change to a scratch copy of /repo's working tree (outside
# /repo and /verif), runs the property's check against it, removes the copy.
# Exit status: that of the check (1 = violation reported = change caught).
P=$(realpath "$1"); C=$2; T=${3:-quick}
D=/var/tmp/vfseed.$$
rm -rf $D && mkdir -p $D && cp -r /repo/src $D/src
if ! (cd $D && patch -p1 -s --no-backup-if-mismatch < "$P"); then echo "PATCH DID NOT APPLY"; rm -rf $D; exit 3; fi
cd /verif && VERIF_REPO_SRC=$D/src ./run $C --tier $T 2>&1 | grep -E "VIOLATION|signature|ok,|VACUOUS|HARNESS" | cut -c1-300 | head -6
rc=0
rm -rf $D
exit $rc
