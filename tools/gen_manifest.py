#!/venv/bin/python
"""Regenerates /verif/MANIFEST.json from the table below (one source of truth
for the per-property texts) and validates it against the schema."""
import json
import os
import sys

HERE = os.path.dirname(os.path.dirname(os.path.abspath(__file__)))
sys.path.insert(0, HERE)
sys.path.append(os.path.join(HERE, '.deps'))

BASELINE_OFF = ("cd /repo && env -u PYTHON_SOCKETIO_VERIF /venv/bin/python -m "
                "pytest -ra -q -p no:cacheprovider --timeout=900 "
                "--continue-on-collection-errors")

# pid -> (design_ref, technique, level text, level note)
CHECKS = {}


def check(pid, design_ref, technique, text, note):
    CHECKS[pid] = (design_ref, technique, text, note)


check('C01', 'DESIGN.md 4/C01',
      'property-based testing (Hypothesis): round trip + differential '
      'against an independent spec-derived codec; atheris coverage-guided '
      'fuzzing of the same oracle in the thorough tier',
      'Generated packets over the whole stated domain are encoded, checked '
      'field by field against a codec written from the protocol text, decoded '
      'back (attachments handed back one by one) and compared type-strictly; '
      'frames from the reference encoder with other legal escaping choices '
      'are decoded too. No counterexample in the counted cases; not a proof.',
      'Trusts the stdlib json module (used by both codecs for values) and my '
      'reading of the v5 protocol text in vf/refcodec.py. Bare top-level '
      'numeric payloads are judged on the encoder side only.')

MB = ('model-based stateful property testing (Hypothesis-generated operation '
      'histories interpreted against the real classes on real engine.io '
      'sockets and against an executable reference model, compared after '
      'every step)')
TB = ('Trusts python-engineio (Socket.receive / queue / close used as they '
      'are, HTTP and WebSocket I/O cut away), the harness transport in '
      'vf/eio_server.py and the independent peer codec vf/wire.py.')

check('C03', 'DESIGN.md 4/C03', MB,
      'Histories of connects, room changes, disconnects of all three kinds '
      'and emits (room / list / sid / broadcast, skip_sid) on both servers; '
      'after every emit the exact multiset of recipient transports and after '
      'every step rooms(sid) are compared with a set-based model. No '
      'counterexample in the counted histories.', TB)
check('C05', 'DESIGN.md 4/C05', MB,
      'Bursts of text/binary events with colliding ids from several clients, '
      'frames of different transports interleaved, async_handlers on/off '
      '(background tasks run in generated order), both servers; invocation '
      'log and per-transport ACK frames compared with the documented rule.',
      TB)

check('C04', 'DESIGN.md 4/C04', MB,
      'Connect/refuse/disconnect histories over always_connect x namespace '
      'configurations x handler styles on both servers against a lifecycle '
      'model (handler counts, answer frames, refusal payloads, fresh sids, '
      'exactly-one disconnect with the right reason, no delivery after the '
      'end); asyncio interleavings of concurrent terminating causes are '
      'enumerated on the deterministic loop.', TB)
check('C06', 'DESIGN.md 4/C06', MB,
      'Histories of emit-with-callback / call() and ACKs carrying right, '
      'used, never-issued and foreign ids, with disconnects and reconnects; '
      'model of outstanding callbacks per sid; call() under generated orders '
      'of ACK / timeout / disconnect (virtual time, pumping wait primitive).',
      TB)
check('C16', 'DESIGN.md 4/C16', MB,
      'Histories of save/get/session() blocks with mutations, disconnects '
      'and reconnects on the same or a new transport, both servers, against '
      'a per-connection dict model.', TB)

check('C11', 'DESIGN.md 4/C11',
      MB + '; fault injection (k-th handler invocation raises); metamorphic '
      'object-graph growth test over n vs 2n client generations',
      'Generated client generations (incl. refused connects, unanswered '
      'callbacks, timed-out call(), unfinished binary packets, malformed '
      'frames, raising handlers) ended by generated causes and repeated 2n '
      'times: observable emptiness, empty bookkeeping containers, constant '
      'reachable-object count, and a fresh client served normally.',
      TB + ' The object-graph walk skips modules, classes, functions, '
      'logging and harness objects.')
check('C12', 'DESIGN.md 4/C12',
      'grammar-based and unstructured fuzzing with Hypothesis (mutated valid '
      'frames, msgpack maps, engine.io-sniffed values) against a '
      'non-interference oracle; atheris coverage-guided campaign in the '
      'thorough tier',
      'Sequences of hostile frames from one transport interleaved with '
      'bystander traffic; after every frame the bystanders\' rooms, '
      'sessions, callbacks, queues and logs must be unchanged, handler '
      'invocations must carry an offender sid, undecodable frames must reach '
      'no handler, memory/graph growth must be bounded by the bytes '
      'received; finally every bystander completes a fixed exchange.', TB)

TBC = ('Trusts python-engineio\'s client state machine (disconnect(), '
       '_receive_packet, _trigger_event, _reset are the real code; only '
       '_connect_*, _send_packet and the read/write loops are replaced on the '
       'instance, vf/eio_client.py) and the independent peer codec.')
check('C08', 'DESIGN.md 4/C08', MB,
      'Histories of connect (namespaces/auth/wait variants) with scripted '
      'server answers in generated order, per-namespace server DISCONNECTs, '
      'emits on connected and unconnected namespaces, disconnect(), '
      'transport loss (also mid binary packet / with callbacks outstanding), '
      'server CLOSE and re-connections, both clients and handler styles, '
      'against a model of what the server has accepted and not yet ended.',
      TBC)
check('C13', 'DESIGN.md 4/C13',
      'exhaustive enumeration of the registry-shape space plus '
      'Hypothesis-sampled names and arguments against a reference resolver '
      'written from the documented order',
      'All 2^6 x 2 x 2 x {4 classes, sync/coroutine} cells are executed on '
      'every run; names/arguments are sampled; events also go through real '
      'EVENT frames on the servers.', TB)
check('C17', 'DESIGN.md 4/C17',
      'exhaustive enumeration of (class, helper, optional-argument subset, '
      'call style) plus Hypothesis-sampled values against a recorder with the '
      'real signatures (inspect.signature().bind)',
      'Every helper of the four namespace classes is called with every '
      'subset of its optional arguments, positionally and by keyword; each '
      'given argument must reach the same-named parameter unchanged, an '
      'omitted namespace must become the registration namespace, the result '
      'must come back unchanged.',
      'Trusts inspect.signature of the current Server/Client classes as the '
      'definition of "the same-named parameter".')

check('C09', 'DESIGN.md 4/C09', MB,
      'Sequences of server events (ids None/0/any, function, catch-all and '
      'class-based handlers, sync/coroutine) and ACKs (right, repeated, '
      'unknown, other-namespace ids) interleaved with client emits with '
      'callbacks and call() on several namespaces; handler log, outgoing ACK '
      'frames and callback log compared with a model of outstanding '
      'callbacks per namespace.', TBC)
check('C10', 'DESIGN.md 4/C10',
      'fault-sequence enumeration (all attempt-outcome patterns up to a '
      'bound) plus Hypothesis-sampled configurations, with the wait '
      'primitives replaced by recording ones (virtual time for asyncio)',
      'For every cause of loss, configuration and outcome pattern the '
      'recorded back-off waits, the number and parameters of the attempts, '
      'the CONNECT frames, the handler invocations and the number of efforts '
      'are compared with the documented policy; follow-up losses after a '
      'success and after a finished effort are included.', TBC)

check('C02', 'DESIGN.md 4/C02',
      'property-based round trip through a real client linked to a real '
      'server (Hypothesis-generated scripts over 8 configurations)',
      'Generated emit/send/call scripts in both directions with generated '
      'payloads and return values over {threaded, asyncio} x {default, '
      'msgpack} x {binary, base64 text framing through the real engine.io '
      'packet/payload codec}; handler arguments, order, callback arguments '
      'and call() results are compared type-strictly with the documented '
      'packing rule.',
      'Trusts python-engineio\'s packet/payload codec and state machines; '
      'engine.io transports (HTTP, WebSocket) are not exercised.')

TBP = ('In-memory ordered channel carrying pickled messages instead of a '
       'broker; the listener loop body (_thread) and every manager method '
       'are the real code; python-engineio trusted as above.')
check('C07', 'DESIGN.md 4/C07',
      MB + ': differential against a reference single server; generated '
      'consumption schedules for the delayed case',
      'A cluster of 2-4 real servers with PubSubManager/AsyncPubSubManager '
      'subclasses and a reference single server are driven by the same '
      'history. Immediate schedule: per-client event sequences, rooms and '
      'callbacks must be identical. Delayed schedule (generated per-host '
      'consumption steps): at-most-once, eligibility inside each host\'s '
      'flight window, exactness for emits not raced by a membership change, '
      'callbacks once on the issuing host.', TBP)
check('C15', 'DESIGN.md 4/C15',
      'fuzzing of the channel with generated bad messages and injected '
      'faults, sentinel-delivery oracle',
      'Generated channel sequences (garbage bytes, pickles/JSON of '
      'non-dicts, missing / wrong-typed / surplus fields, unknown methods, '
      'own-host echoes, foreign and unknown callbacks) with faults injected '
      'into the transport send, the disconnect handler, the application '
      'callback and the listen iterator; a valid sentinel after every '
      'message must be delivered exactly once and in order.', TBP)

check('C14', 'DESIGN.md 4/C14',
      'differential testing: the same Hypothesis-generated scenario executed '
      'against the threaded and the asyncio class, normalised traces '
      'compared',
      'Scenario families for servers, clients (incl. reconnection), pub/sub '
      'clusters and the simple clients are run twice; frames per peer, '
      'published messages, handler/callback invocations, results or '
      'exception types and rooms after every step must be equal after '
      'renaming ids by first appearance. Pure differential oracle: it is '
      'the check that ties the two copies of every method together.',
      'Both sides run on the same harness (inline / FIFO-joined background '
      'handlers, virtual time on the asyncio side); a defect present '
      'identically in both copies is invisible to this check (the '
      'model-based checks cover that).')

check('C18', 'DESIGN.md 4/C18',
      'property-based testing of the admin gate (generated near-miss '
      'payloads against the documented acceptance rule), read-only command '
      'fuzzing with a state-unchanged oracle, and differential testing '
      '(instrumented vs plain server on the same generated scenario)',
      'gate: every generated auth payload must be accepted iff the '
      'documented rule says so and a refused candidate holds no membership '
      'and receives nothing later; readonly: every admin command with '
      'generated targets leaves application clients untouched in read-only '
      'mode; transparency: application clients\' normalised traces on a '
      'plain and an instrumented server (both modes, with/without an admin) '
      'must be identical.',
      TB + ' Statistics tasks are never run; engine.io Socket class '
      'attributes patched by instrument() are restored after every case.')

check('C20', 'DESIGN.md 4/C20',
      'systematic schedule exploration: real threads under a cooperative '
      'scheduler, exhaustive DFS over the interleavings of every pair of '
      'terminating actions, Hypothesis-generated schedules for triples',
      'Every interleaving - at the granularity of the server\'s accesses to '
      'the client manager and the transport and of handler entry - of every '
      'pair of {server.disconnect, client DISCONNECT, transport loss, '
      'DISCONNECT of the other namespace} is executed on real threads; the '
      'disconnect handler must run exactly once, no thread may raise, no '
      'residue may remain, bystanders must be untouched.',
      'Pre-emption only at instrumented operations (not between bytecodes); '
      'threading async mode only; the harness owns the schedule '
      '(vf/coop.py).')

check('C19', 'DESIGN.md 4/C19',
      'systematic schedule exploration (cooperative scheduler over real '
      'threads, exhaustive DFS for small shapes, Hypothesis-generated '
      'schedules beyond) and generated stimulus orders on a deterministic '
      'asyncio loop, with a history-invariant oracle',
      'SimpleClient with its events and buffer replaced by scheduler-aware '
      'look-alikes: producer (events, loss, reconnection, final disconnect), '
      'consumer (receive with/without timeout) and emitter are interleaved '
      'at every event/buffer operation; returned values must be a prefix of '
      'the arrival sequence, TimeoutError/DisconnectedError only when '
      'allowed, no receive() parked for ever with an event available or '
      'after the end. AsyncSimpleClient: stimuli injected at idle points or '
      'back to back.',
      TBC + ' Granularity: the client\'s event and buffer operations.')

NOT_BUILT = {}


def main():
    props = [json.loads(l) for l in open(os.path.join(HERE,
                                                      'properties.jsonl'))]
    checks = []
    na = []
    for p in props:
        pid = p['id']
        if pid in CHECKS:
            ref, tech, text, note = CHECKS[pid]
            checks.append({
                'property_id': pid,
                'quick_cmd': './run %s --tier quick' % pid,
                'thorough_cmd': './run %s --tier thorough' % pid,
                'evidence_file': 'evidence/%s.json' % pid,
                'replay_cmd_template': './run %s --replay {path}' % pid,
                'engine': 'vf',
                'level_claimed': {'category': 'exploration', 'text': text,
                                  'design_ref': ref},
                'level_note': note,
                'technique': tech,
            })
        else:
            na.append({'property_id': pid,
                       'reason': NOT_BUILT.get(
                           pid, 'check not built yet (in progress; the '
                           'technique applies, see DESIGN.md section 4)')})
    m = {
        'version': 1,
        'setup_cmd': './setup.sh',
        'hooks': {
            'guard': 'PYTHON_SOCKETIO_VERIF',
            'enable': 'no hooks in the repository: all instrumentation is '
                      'done from outside on instances (DESIGN.md 2.9)',
            'baseline_off_cmd': BASELINE_OFF,
            'source_commits': [],  # no hook commits; fix: commits are listed in known_findings.json
            'add_only': True,
        },
        'engines': [{
            'name': 'vf', 'path': 'vf/',
            'serves_properties': sorted(CHECKS),
            'kind_free_text': 'Hypothesis-driven property-based / model-based '
                              'stateful testing with explicit oracles, '
                              'exhaustive enumeration of small finite spaces, '
                              'atheris coverage-guided fuzzing (thorough)'}],
        'checks': checks,
        'not_applicable': na,
        'notes': 'All checks: ./run <id> [--tier quick|thorough]; seeds via '
                 'VERIF_SEED; known findings in known_findings.json; see '
                 'DESIGN.md.',
    }
    path = os.path.join(HERE, 'MANIFEST.json')
    with open(path, 'w') as f:
        json.dump(m, f, indent=1)
        f.write('\n')
    try:
        import jsonschema
        jsonschema.validate(m, json.load(open('/root/.vp/MANIFEST.schema.json')))
        print('MANIFEST.json valid: %d checks, %d not_applicable'
              % (len(checks), len(na)))
    except ImportError:
        print('jsonschema not available; not validated')


if __name__ == '__main__':
    main()
