#!/bin/sh
# like mut.sh but starting from a given source tree ($SRC, default /repo/src)
D=/var/tmp/vfmut.$$
rm -rf $D && mkdir -p $D && cp -r ${SRC:-/repo/src} $D/src
sed -i "$3" $D/src/socketio/$2
if diff -q ${SRC:-/repo/src}/socketio/$2 $D/src/socketio/$2 >/dev/null; then echo "MUTATION DID NOT APPLY"; rm -rf $D; exit 3; fi
cd /verif && VERIF_REPO_SRC=$D/src ./run $1 --tier ${4:-quick} 2>&1 | grep -E "VIOLATION|signature|ok,|VACUOUS|HARNESS|KNOWN" | head -8
rm -rf $D
