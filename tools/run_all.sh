#!/bin/sh
# runs every registered quick (or $1=thorough) check against /repo
cd "$(dirname "$0")/.."
T=${1:-quick}
for p in C01 C02 C03 C04 C05 C06 C07 C08 C09 C10 C11 C12 C13 C14 C15 C16 C17 C18 C19 C20; do
  ./run $p --tier $T 2>&1 | grep -E -A12 "VIOLATION|ok,|HARNESS|VACUOUS|KNOWN-FINDING" | grep -v "^  [a-z_]*: [0-9]" | cut -c1-200 | \
    awk '/HARNESS/{h=14} {if (h>0 || $0 ~ /VIOLATION|ok,|VACUOUS|KNOWN-FINDING/) print; if (h>0) h--}'
done
