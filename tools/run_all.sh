#!/bin/sh
# runs every registered quick (or $1=thorough) check against /repo
cd "$(dirname "$0")/.."
T=${1:-quick}
for p in C01 C02 C03 C04 C05 C06 C07 C08 C09 C10 C11 C12 C13 C14 C15 C16 C17 C18 C19 C20; do
  ./run $p --tier $T 2>&1 | grep -E "VIOLATION|ok,|HARNESS|VACUOUS|KNOWN-FINDING" | cut -c1-160
done
