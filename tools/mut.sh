#!/bin/sh
# tools/mut.sh <Cnn> <file-under-src/socketio> <sed-expression> [tier]
# Applies a one-line mutation to a scratch copy of /repo/src (outside /repo
# and /verif), runs the property's check against it, removes the copy.
D=/var/tmp/vfmut.$$
rm -rf $D && mkdir -p $D && cp -r /repo/src $D/src
sed -i "$3" $D/src/socketio/$2
if diff -q /repo/src/socketio/$2 $D/src/socketio/$2 >/dev/null; then echo "MUTATION DID NOT APPLY"; rm -rf $D; exit 3; fi
cd /verif && VERIF_REPO_SRC=$D/src ./run $1 --tier ${4:-quick} 2>&1 | grep -E "VIOLATION|signature|ok,|VACUOUS|HARNESS|KNOWN" | head -8
rc=$?
rm -rf $D
