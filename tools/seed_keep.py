#!/venv/bin/python
"""tools/seed_keep.py <worktree-id> <name> <property> <caught-by|MISSED> -- copies a confirmed seeded change into /verif/seeded/<name>/"""
import json, os, shutil, sys
wid, name, prop, caught = sys.argv[1:5]
src = '/tmp/seed/%s/_seed' % wid
dst = '/verif/seeded/%s' % name
os.makedirs(dst, exist_ok=True)
for f in ('patch.diff', 'demo.py', 'notes.md'):
    if os.path.exists(os.path.join(src, f)):
        shutil.copy(os.path.join(src, f), os.path.join(dst, f))
notes = open(os.path.join(src, 'notes.md')).read() if os.path.exists(os.path.join(src, 'notes.md')) else ''
meta = {
    'property': prop,
    'origin': 'independent sub-agent given only the property text and a scratch worktree',
    'needs_to_manifest': notes.strip()[:1500],
    'confirmed_by': 'tools/seed_confirm.sh: demo exits 0 on the unchanged tree and non-zero with the patch; '
                    'tests/common + tests/async (-k "not admin") pass with the patch (579 passed)',
    'check_result': caught,
    'how_to_rerun': 'tools/seed_check.sh seeded/%s/patch.diff %s' % (name, prop),
}
json.dump(meta, open(os.path.join(dst, 'meta.json'), 'w'), indent=1)
print('kept', dst)
