#!/bin/sh
# tools/seed_confirm.sh <id-dir under /tmp/seed> : confirms a seeded change independently:
# demo passes on original / fails with change; non-admin unit tests pass with change.
W=/tmp/seed/$1
P=$W/_seed/patch.diff
D=/var/tmp/vfconf.$$
rm -rf $D && mkdir -p $D && git -C /repo archive HEAD | tar -x -C $D
cd $D
echo "== demo on original:"; PYTHONPATH=$D/src timeout 300 /venv/bin/python $W/_seed/demo.py >/dev/null 2>&1; echo "exit $?"
patch -p1 -s < $P || { echo PATCH FAILED; exit 3; }
echo "== demo with change:"; PYTHONPATH=$D/src timeout 300 /venv/bin/python $W/_seed/demo.py >/dev/null 2>&1; echo "exit $?"
echo "== unit tests with change (non-admin):"; PYTHONPATH=$D/src timeout 1200 /venv/bin/python -m pytest -q -p no:cacheprovider tests/common tests/async -k "not admin" -n 8 2>&1 | tail -1
cd /; rm -rf $D
