#!/venv/bin/python
"""Prints the markdown table of seeded changes (DESIGN.md 10.5) from seeded/*/meta.json."""
import glob, json, os
rows = []
for m in sorted(glob.glob(os.path.join(os.path.dirname(__file__), '..', 'seeded', '*', 'meta.json'))):
    d = json.load(open(m))
    name = os.path.basename(os.path.dirname(m))
    rows.append((d['property'], name, d['check_result']))
print('| seeded change | property | result of running the checks |')
print('|---------------|----------|------------------------------|')
for p, n, r in sorted(rows):
    print('| %s | %s | %s |' % (n, p, r.replace('|', '/')))
print()
open_ = [r for r in rows if 'open lead' in r[2]]
missed = [r for r in rows if ('missed' in r[2].lower() or 'HARNESS' in r[2]) and r not in open_]
print('%d seeded changes kept; %d caught on the first run; %d first missed (or not decided) and caught after strengthening; %d not caught yet (open leads).' % (len(rows), len(rows) - len(missed) - len(open_), len(missed), len(open_)))
