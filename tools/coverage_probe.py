"""tools/coverage_probe.py [Cnn ...] : line coverage of /repo/src/socketio
reached by the generated cases of the checks (in-process, a few hundred
cases per property; a diagnostic for generator blind spots, not a check)."""
import os
import sys
here = os.path.dirname(os.path.dirname(os.path.abspath(__file__)))
sys.path.insert(0, here)
sys.path.append(os.path.join(here, '.deps'))
import coverage  # noqa: E402

out = '/var/tmp/vfcov'
os.makedirs(out, exist_ok=True)
cov = coverage.Coverage(data_file=os.path.join(out, 'data'),
                        include=['/repo/src/socketio/*'], branch=True)
cov.start()
from vf import core  # noqa: E402
core.bootstrap()
import importlib  # noqa: E402
from hypothesis import HealthCheck, given, seed, settings  # noqa: E402
from vf.core import Violation  # noqa: E402
from vf.runner import load_findings  # noqa: E402

pids = sys.argv[1:] or ['C%02d' % i for i in range(1, 21)]
N = int(os.environ.get('N', '300'))
for pid in pids:
    mod = importlib.import_module('vf.props.' + pid.lower())
    mod.KNOWN = {e['key'] for e in load_findings(pid)
                 if e.get('status') == 'known'}
    n = [0]

    @seed(1)
    @settings(max_examples=N, database=None, deadline=None,
              suppress_health_check=list(HealthCheck))
    @given(mod.strategy('quick'))
    def t(case):
        n[0] += 1
        try:
            mod.check_case(case)
        except Violation:
            pass
    try:
        t()
    except Exception as e:
        print(pid, 'ERROR', repr(e)[:200])
    en = getattr(mod, 'enumerate_cases', None)
    if en is not None:
        for i, case in enumerate(en('quick')):
            if i > 300:
                break
            try:
                mod.check_case(case)
            except Violation:
                pass
    sys.stderr.write('%s %d cases\n' % (pid, n[0]))
cov.stop()
cov.save()
cov.report(show_missing=True, skip_covered=False,
           file=open(os.path.join(out, 'report.txt'), 'w'))
print(open(os.path.join(out, 'report.txt')).read())
