#!/bin/sh
# Offline setup: third-party helpers for the checks go to /verif/.deps
# (hypothesis is normally already in /venv; jsonschema and atheris are not).
set -e
cd "$(dirname "$0")"
mkdir -p .deps evidence replays
PIP="/venv/bin/python -m pip"
W=/opt/veriftools/wheels
/venv/bin/python -c "import hypothesis" 2>/dev/null || \
  $PIP install -q --no-index --find-links $W --target .deps hypothesis
PYTHONPATH=.deps /venv/bin/python -c "import jsonschema" 2>/dev/null || \
  $PIP install -q --no-index --find-links $W --target .deps jsonschema
PYTHONPATH=.deps /venv/bin/python -c "import atheris" 2>/dev/null || \
  $PIP install -q --no-index --find-links $W --target .deps atheris || \
  echo "atheris not installable; coverage-guided tier disabled" >&2
exit 0
