"""Size of the object graph reachable from a server object.

gc.get_referents walk that does not descend into modules, classes,
functions, code objects, logging objects (process-wide, shared by every
server) or harness objects (vf.*), so the result measures what the *server*
keeps."""
import gc
import logging
import types

_SKIP_TYPES = (types.ModuleType, type, types.FunctionType,
               types.BuiltinFunctionType, types.CodeType, logging.Logger,
               logging.Handler, logging.Manager, types.FrameType,
               types.TracebackType, types.GetSetDescriptorType,
               types.MemberDescriptorType, types.WrapperDescriptorType,
               types.MethodDescriptorType)


def _skip(o):
    if isinstance(o, _SKIP_TYPES):
        return True
    mod = getattr(type(o), '__module__', '') or ''
    if mod.startswith('vf.') or mod == 'vf' or mod.startswith('hypothesis'):
        return True
    if mod.startswith('asyncio') and type(o).__name__ not in (
            'Queue', 'Event', 'Lock'):
        return True     # loops, tasks, futures, handles: harness owned
    if isinstance(o, types.MethodType):
        smod = getattr(type(o.__self__), '__module__', '') or ''
        if smod.startswith('vf.'):
            return True
    return False


class _Bulk:
    """Stands for the elements of a huge container that is not expanded."""

    def __init__(self, n):
        self.n = n


def reachable(root, limit=2000000):
    seen = {id(root): root}
    stack = [root]
    while stack:
        o = stack.pop()
        if isinstance(o, (list, tuple, dict, set)) and len(o) > 200000:
            # do not materialise the referents of a huge container (that
            # alone could exhaust memory): count its slots instead
            b = _Bulk(len(o))
            seen[id(b)] = b
            continue
        for r in gc.get_referents(o):
            if id(r) in seen or _skip(r):
                continue
            seen[id(r)] = r
            stack.append(r)
            if len(seen) > limit:
                return seen
    return seen


def size(root):
    r = reachable(root)
    return len(r) + sum(o.n for o in r.values() if isinstance(o, _Bulk))


def histogram(root):
    h = {}
    for o in reachable(root).values():
        k = type(o).__name__
        h[k] = h.get(k, 0) + 1
    return h
