"""Shared definitions: Violation, repo import bootstrap, helpers."""
import asyncio
import inspect
import logging
import os
import sys

VERIF_DIR = os.path.dirname(os.path.dirname(os.path.abspath(__file__)))
REPO_SRC = os.environ.get('VERIF_REPO_SRC', '/repo/src')


class Violation(Exception):
    """The property does not hold on this case."""

    def __init__(self, kind, detail=''):
        super().__init__('%s: %s' % (kind, detail))
        self.kind = kind
        self.detail = detail


class Abort(BaseException):
    """Raised by a harness component from inside library code to end a case
    whose outcome is already decided (e.g. a message storm on the pub/sub
    channel): a BaseException, so that no `except Exception` of the code
    under test contains it; the runner turns it into Violation(kind)."""

    def __init__(self, kind, detail=''):
        super().__init__('%s: %s' % (kind, detail))
        self.kind = kind
        self.detail = detail


class HarnessError(Exception):
    """The harness itself is broken (never a property violation)."""


def bootstrap():
    """Put the repository's current working tree first on sys.path and make
    sure that is what gets imported."""
    deps = os.path.join(VERIF_DIR, '.deps')
    if os.path.isdir(deps) and deps not in sys.path:
        sys.path.append(deps)
    if REPO_SRC not in sys.path:
        sys.path.insert(0, REPO_SRC)
    import socketio
    here = os.path.realpath(os.path.dirname(socketio.__file__))
    want = os.path.realpath(os.path.join(REPO_SRC, 'socketio'))
    if here != want:
        raise HarnessError('socketio imported from %s, expected %s'
                           % (here, want))
    for name in ('socketio', 'socketio.server', 'socketio.client',
                 'engineio', 'engineio.server', 'engineio.client'):
        lg = logging.getLogger(name)
        lg.setLevel(logging.CRITICAL + 10)
        lg.propagate = False
        if not lg.handlers:
            lg.addHandler(logging.NullHandler())
    return socketio


async def maybe_await(x):
    if inspect.isawaitable(x):
        return await x
    return x


def run_coro(coro):
    """Run a coroutine to completion on a fresh private event loop."""
    loop = asyncio.new_event_loop()
    try:
        return loop.run_until_complete(coro)
    finally:
        try:
            pending = [t for t in asyncio.all_tasks(loop) if not t.done()]
            for t in pending:
                t.cancel()
            if pending:
                loop.run_until_complete(
                    asyncio.gather(*pending, return_exceptions=True))
        finally:
            loop.close()


def as_violation(exc):
    """An exception that escaped check_case: if it was raised inside the
    library under test (socketio / engineio / bidict frames innermost) it is
    a violation ("an API call on valid input raised"); if it was raised in
    harness code it is a harness error and is re-raised as such."""
    import traceback
    tb = traceback.extract_tb(exc.__traceback__)
    if not tb:
        return None
    inner = tb[-1]
    fn = inner.filename
    libs = (os.path.realpath(REPO_SRC), 'site-packages/engineio',
            'site-packages/bidict', 'site-packages/msgpack')
    if any(x in os.path.realpath(fn) for x in libs):
        where = '%s:%s' % (os.path.basename(fn), inner.name)
        return Violation('exception-%s@%s' % (type(exc).__name__, where),
                         ''.join(traceback.format_exception(exc))[-1500:])
    return None
