"""Coverage-guided campaign: atheris (libFuzzer) drives the property's own
Hypothesis test through fuzz_one_input, with coverage feedback from
socketio.*.

usage: python -m vf.fuzz <Cnn> <runs> <seed> <outdir> [max_total_time]

Writes <outdir>/stats.json periodically (executions, distinct non-trivial
digests, labels) and <outdir>/failure.json when check_case raised a
Violation (libFuzzer then stops with a crash).  Campaigns are pinned only
approximately by -seed/-runs; the saved failing case is the reproducible
unit (it is re-run through check_case in a fresh process by the runner).
"""
import asyncio
import json
import os
import sys
import time


def main():
    pid, runs, seed, outdir = sys.argv[1], int(sys.argv[2]), \
        int(sys.argv[3]), sys.argv[4]
    max_time = int(sys.argv[5]) if len(sys.argv) > 5 else 600
    os.makedirs(outdir, exist_ok=True)
    here = os.path.dirname(os.path.dirname(os.path.abspath(__file__)))
    sys.path.insert(0, here)
    deps = os.path.join(here, '.deps')
    if deps not in sys.path:
        sys.path.append(deps)
    from vf import core
    sys.path.insert(0, core.REPO_SRC)
    import atheris
    with atheris.instrument_imports(include=['socketio']):
        import socketio  # noqa: F401
        import socketio.packet  # noqa: F401
        import socketio.server  # noqa: F401
        import socketio.async_server  # noqa: F401
        import socketio.base_manager  # noqa: F401
        import socketio.msgpack_packet  # noqa: F401
    core.bootstrap()
    import importlib
    from vf import case as casemod
    from vf.core import Violation
    from vf.runner import load_findings
    mod = importlib.import_module('vf.props.' + pid.lower())
    mod.KNOWN = {e['key'] for e in load_findings(pid.upper())
                 if e.get('status') == 'known'}
    from hypothesis import HealthCheck, given, settings
    stats = {'executions': 0, 'nontrivial': set(), 'labels': {},
             't0': time.time()}

    def flush():
        with open(os.path.join(outdir, 'stats.json'), 'w') as f:
            json.dump({'executions': stats['executions'],
                       'nontrivial': sorted(stats['nontrivial']),
                       'labels': stats['labels'],
                       'wall_s': time.time() - stats['t0']}, f)

    def body(case):
        stats['executions'] += 1
        try:
            try:
                labels = mod.check_case(case)
            except Violation:
                raise
            except core.Abort as a:
                raise Violation(a.kind, a.detail) from None
            except asyncio.CancelledError:
                raise Violation('cancellation-escaped', '') from None
            except Exception as e:
                v = core.as_violation(e)
                if v is None:
                    raise
                raise v from None
        except Violation as v:
            with open(os.path.join(outdir, 'failure.json'), 'w') as f:
                json.dump({'case': casemod.to_jsonable(case),
                           'kind': v.kind}, f)
            flush()
            raise
        if labels and labels.get('nontrivial'):
            stats['nontrivial'].add(casemod.digest(case))
        if stats['executions'] % 500 == 0:
            flush()

    test = settings(database=None, deadline=None,
                    suppress_health_check=list(HealthCheck))(
        given(mod.strategy('thorough'))(body))
    corpus = os.path.join(outdir, 'corpus')
    os.makedirs(corpus, exist_ok=True)
    # starting corpus: a few pseudo-random blobs long enough for the
    # strategy to draw a whole case from (an empty corpus is run as well:
    # libFuzzer always tries the empty input first)
    import random
    rnd = random.Random(seed)
    for i in range(8):
        with open(os.path.join(corpus, 'seed%d' % i), 'wb') as f:
            f.write(bytes(rnd.getrandbits(8) for _ in range(256 * (i + 1))))
    argv = [sys.argv[0], '-runs=%d' % runs, '-seed=%d' % seed,
            '-max_total_time=%d' % max_time, '-max_len=4096',
            '-len_control=0',
            '-artifact_prefix=' + outdir + '/', '-print_final_stats=1',
            corpus]
    atheris.Setup(argv, test.hypothesis.fuzz_one_input)
    try:
        atheris.Fuzz()
    finally:
        flush()


if __name__ == '__main__':
    main()
