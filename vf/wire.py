"""Harness-side peer codec: builds the frames a remote peer would send and
reads the frames the library queues, without using socketio/packet.py.

default serializer -> vf.refcodec; msgpack serializer -> msgpack directly
(a msgpack packet is the map {type, data, nsp[, id]}).
"""
from . import refcodec
from .strategies import contains_bytes

CONNECT, DISCONNECT, EVENT, ACK, CONNECT_ERROR, BINARY_EVENT, BINARY_ACK = \
    range(7)


def frames(ptype, nsp='/', pid=None, data=None, serializer='default'):
    """List of engine.io message bodies for one socket.io packet."""
    if serializer == 'msgpack':
        import msgpack
        d = {'type': ptype, 'data': data, 'nsp': nsp or '/'}
        if pid is not None:
            d['id'] = pid
        return [msgpack.dumps(d)]
    if ptype in (EVENT, ACK) and contains_bytes(data):
        ptype = BINARY_EVENT if ptype == EVENT else BINARY_ACK
    text, atts = refcodec.encode(ptype, nsp, pid, data)
    return [text] + atts


class Reader:
    """Reassembles the socket.io packets found in a stream of engine.io
    message bodies.  read(msgs) -> list of dicts type/nsp/id/data."""

    def __init__(self, serializer='default'):
        self.serializer = serializer
        self.cur = None
        self.atts = []

    def read(self, msgs):
        out = []
        for m in msgs:
            if self.serializer == 'msgpack':
                import msgpack
                d = msgpack.loads(m)
                out.append({'type': d['type'], 'nsp': d.get('nsp') or '/',
                            'id': d.get('id'), 'data': d.get('data')})
                continue
            if self.cur is not None:
                if not isinstance(m, bytes):
                    raise refcodec.RefError(
                        'text frame %r where an attachment was owed' % (m,))
                self.atts.append(m)
                if len(self.atts) == self.cur['attachments']:
                    self.cur['data'] = refcodec.reconstruct(
                        self.cur['data'], self.atts)
                    out.append(self._fin(self.cur))
                    self.cur, self.atts = None, []
                continue
            if isinstance(m, bytes):
                raise refcodec.RefError('stray binary frame %r' % (m[:20],))
            r = refcodec.decode(m, strict=False)
            if r['type'] in (BINARY_EVENT, BINARY_ACK) and r['attachments']:
                refcodec.check_placeholders(r['data'], r['attachments'])
                self.cur, self.atts = r, []
            else:
                out.append(self._fin(r))
        return out

    @staticmethod
    def _fin(r):
        q = r['nsp'].find('?')
        nsp = r['nsp'] if q == -1 else r['nsp'][:q]
        t = r['type']
        return {'type': t, 'nsp': nsp, 'id': r['id'], 'data': r['data'],
                'binary': t in (BINARY_EVENT, BINARY_ACK)}

    @property
    def pending(self):
        return self.cur is not None


def pack_args(value):
    """The documented packing rule: tuple -> several arguments, None -> none,
    anything else -> exactly one."""
    if value is None:
        return []
    if isinstance(value, tuple):
        return list(value)
    return [value]
