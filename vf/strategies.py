"""Generators shared by the property modules."""
from hypothesis import strategies as st

# characters that matter to the header scanner / JSON escaping
_SPECIAL = '"\\/,-?#0123456789[]{}:  \x00\x1f\x7f\x1e \t\n' \
           'é٣²\U0001F600\U00010000'


def fdict(mapping):
    """Like st.fixed_dictionaries, built from st.tuples: fixed_dictionaries
    with four or more keys draws nothing under Hypothesis' fuzz_one_input
    (bytestring provider) in this version, which would make the
    coverage-guided campaigns vacuous."""
    keys = list(mapping)
    return st.tuples(*[mapping[k] for k in keys]).map(
        lambda t: dict(zip(keys, t)))


def text_st(max_size=8, surrogates=False):
    alpha = st.one_of(
        st.sampled_from(list(_SPECIAL)),
        st.characters(blacklist_categories=() if surrogates else ('Cs',)),
        st.sampled_from(list('abcxyz')))
    return st.text(alphabet=alpha, max_size=max_size)


def ints_st(bits64=False):
    if bits64:
        return st.one_of(
            st.sampled_from([0, 1, -1, 2**31, -2**31, 2**53, 2**63 - 1,
                             -2**63, 255, 256]),
            st.integers(-2**63, 2**63 - 1))
    return st.one_of(
        st.sampled_from([0, 1, -1, 2**31, 2**63, 2**64, -2**63, 10**98,
                         -10**98 + 1]),
        st.integers(-10**98, 10**98),
        st.integers(-1000, 1000))


def floats_st():
    return st.one_of(
        st.sampled_from([0.0, -0.0, 1.0, 1.5, -1.5, 1e300, -1e300, 5e-324,
                         1e-7, 1e16, 1e22, 0.1, 100.0]),
        st.floats(allow_nan=False, allow_infinity=False))


def bytes_st(max_size=12):
    return st.one_of(
        st.sampled_from([b'', b'\x00', b'\xff\xff', b'abc', b'{"a":1}',
                         b'2["x"]', b'\x04', b'b4']),
        st.binary(max_size=max_size))


def leaves_st(with_bytes=True, bits64=False, surrogates=False):
    opts = [
        st.none(), st.booleans(), ints_st(bits64), floats_st(),
        text_st(surrogates=surrogates),
        st.sampled_from([0, '', False, 0.0]),   # falsy over-represented
    ]
    if with_bytes:
        opts.append(bytes_st())
    return st.one_of(opts)


def key_st(surrogates=False):
    return text_st(max_size=5, surrogates=surrogates).filter(
        lambda k: k not in ('_placeholder', '__tag'))   # '__tag': the
    #   harness' own marker argument in C05 / C09 / C14 scenarios


def tree_st(with_bytes=True, bits64=False, max_leaves=12, surrogates=False):
    """JSON-compatible tree (string keys) with optional bytes leaves."""
    return st.recursive(
        st.one_of(leaves_st(with_bytes, bits64, surrogates),
                  st.sampled_from([[], {}])),
        lambda ch: st.one_of(
            st.lists(ch, max_size=4),
            st.dictionaries(key_st(surrogates), ch, max_size=4)),
        max_leaves=max_leaves)


def contains_bytes(v):
    if isinstance(v, bytes):
        return True
    if isinstance(v, (list, tuple)):
        return any(contains_bytes(x) for x in v)
    if isinstance(v, dict):
        return any(contains_bytes(x) for x in v.values())
    return False


def bytes_depth(v, d=0):
    """Maximum depth at which a bytes leaf occurs (-1: none)."""
    if isinstance(v, bytes):
        return d
    if isinstance(v, (list, tuple)):
        return max([bytes_depth(x, d + 1) for x in v] + [-1])
    if isinstance(v, dict):
        return max([bytes_depth(x, d + 1) for x in v.values()] + [-1])
    return -1


def count_bytes(v):
    if isinstance(v, bytes):
        return 1
    if isinstance(v, (list, tuple)):
        return sum(count_bytes(x) for x in v)
    if isinstance(v, dict):
        return sum(count_bytes(x) for x in v.values())
    return 0


def namespace_st(control=True):
    """None, '/', or '/' + text without ','."""
    alpha = st.one_of(
        st.sampled_from(list('abc/-?#0123456789 é\U0001F600"[{')),
        st.characters(blacklist_categories=('Cs',) if control
                      else ('Cs', 'Cc'), blacklist_characters=','))
    body = st.text(alphabet=alpha, max_size=8)
    return st.one_of(
        st.sampled_from([None, '/', '/a', '/chat', '/1-', '/0', '/5-/x',
                         '/a?q=1', '/?x', '/a/b', '/12', '/-', '/1-2']),
        body.map(lambda s: '/' + s))


def ack_id_st():
    return st.one_of(
        st.none(),
        st.sampled_from([0, 1, 2, 9, 10, 2**31, 2**63, 10**99, 10**100 - 1]),
        st.integers(0, 1000),
        st.integers(0, 10**100 - 1))


def event_name_st():
    return st.one_of(
        st.sampled_from(['a', 'ab', 'b', 'msg', 'my event', 'message', '',
                         'év', '1', 'x-y', 'a,b']),
        text_st(max_size=6))


def payload_st(with_bytes=True, bits64=False, surrogates=False, max_leaves=8):
    """Top-level emit payload: a tree, None, or a tuple of trees."""
    t = tree_st(with_bytes, bits64, max_leaves, surrogates)
    return st.one_of(
        t, st.none(),
        st.lists(t, max_size=3).map(tuple))


# ---------------------------------------------------------------- hostile

_TOKENS = ['-', ',', '/', '?', '"', '[', ']', '{', '}', ':', '\\', '0', '1',
           '9', '٣', '²', '೫', '５', ' ', '\x1e', '\x00', 'null', 'true',
           '{"_placeholder":true,"num":0}', '{"_placeholder":true,"num":-1}',
           '{"_placeholder":true,"num":99}', '{"_placeholder":true,"num":1.5}',
           '{"_placeholder":true,"num":"0"}', '{"_placeholder":1,"num":0}',
           '{"_placeholder":true}', '9' * 9, '9' * 10, '9' * 11, '1' * 99,
           '1' * 100, '1' * 101, '7' * 300, '[' * 30, '[' * 400, '{"a":' * 40,
           '*', 'connect', 'disconnect', '__disconnect_final', 'message']


def _mutate(draw, s):
    """One grammar-level mutation of a text frame."""
    kind = draw(st.integers(0, 7))
    n = len(s)
    i = draw(st.integers(0, n)) if n else 0
    j = draw(st.integers(i, n)) if n else 0
    if kind == 0:                      # delete a span
        return s[:i] + s[j:]
    if kind == 1:                      # duplicate a span
        return s[:j] + s[i:j] + s[j:]
    if kind == 2:                      # insert a token
        return s[:i] + draw(st.sampled_from(_TOKENS)) + s[i:]
    if kind == 3:                      # replace a span by a token
        return s[:i] + draw(st.sampled_from(_TOKENS)) + s[j:]
    if kind == 4:                      # truncate
        return s[:i]
    if kind == 5:                      # swap two spans
        k = draw(st.integers(j, n)) if n else 0
        return s[:i] + s[j:k] + s[i:j] + s[k:]
    if kind == 6:                      # change the type digit
        return draw(st.sampled_from(list('0123456789'))) + s[1:]
    return s[:i] + draw(st.text(max_size=4)) + s[i:]


@st.composite
def hostile_text_st(draw, seeds):
    """Mutated valid frames (seeds: list of valid text frames) and
    unstructured text."""
    r = draw(st.integers(0, 9))
    if r == 0:
        return draw(st.text(max_size=20))
    if r == 1:
        # declared counts / ids: absurd digit runs in the header fields
        run = draw(st.sampled_from(
            ['0', '1', '2', '00', '01', '7', '99999999', '999999999',
             '9999999999', '99999999999', '1' * 99, '1' * 100, '1' * 101,
             '4' * 300, '٣', '1٣', '²', '1e9', '-1', '+1', '1_0']))
        t = draw(st.sampled_from(['5', '6', '5', '6', '2', '3']))
        nsp = draw(st.sampled_from(['', '', '/x,', '/c,', '/unk,']))
        pid = draw(st.sampled_from(['', '', '1', '0', '9' * 100, '9' * 101]))
        body = draw(st.sampled_from(
            ['["a",{"_placeholder":true,"num":0}]', '["a"]', '[]', '',
             '["a",{"_placeholder":true,"num":' + run + '}]']))
        if t in '56':
            return t + run + '-' + nsp + pid + body
        return t + nsp + run + body
    s = draw(st.sampled_from(seeds))
    for _ in range(draw(st.integers(1, 3))):
        s = _mutate(draw, s)
    return s


def hostile_msgpack_st(names, nsps):
    """Maps resembling msgpack socket.io packets with missing / extra keys
    and wrong types (values only; serialised by the caller)."""
    any_v = st.one_of(
        st.none(), st.booleans(), st.integers(-5, 10**12), st.text(max_size=5),
        st.binary(max_size=4), st.lists(st.integers(0, 3), max_size=3),
        st.dictionaries(st.text(max_size=3), st.integers(), max_size=2),
        st.sampled_from(names + nsps + ['*', 0, 1, -1, 2**63 - 1]))
    good_data = st.one_of(
        st.lists(any_v, max_size=4),
        st.tuples(st.sampled_from(names + ['*', 'connect', 'disconnect']),
                  st.lists(any_v, max_size=3)).map(lambda t: [t[0]] + t[1]))
    return st.one_of(
        any_v,
        st.tuples(
            st.lists(st.sampled_from(['type', 'data', 'nsp', 'id', 'extra']),
                     unique=True, max_size=5),
            st.one_of(st.integers(-1, 8), any_v),
            st.one_of(good_data, any_v),
            st.one_of(st.sampled_from(nsps), any_v),
            st.one_of(st.integers(0, 5), any_v), any_v).map(
            lambda t: {k: v for k, v in zip(
                ['type', 'data', 'nsp', 'id', 'extra'], t[1:])
                if k in t[0]}))
