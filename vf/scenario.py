"""Scripted server scenarios that produce a normalised trace.

One generator and one interpreter; the interpreter can be pointed at Server
or AsyncServer (C14: the two traces must be equal) and at a plain or an
instrumented server (C18: application clients' traces must be equal).
"""
import copy

from hypothesis import strategies as st

from . import strategies as S
from . import wire
from .core import as_violation
from .world import World

RAISE = '__raise__'      # as a handler's "return value": the handler raises
RAISE_T = '__raise_type__'      # ... a TypeError
NSS = ['/', '/x', '/c', '/zzz']
SERVED = ['/', '/x', '/c']
ROOMS = ['r1', 'r2', 7]
BAD = ['', '9', '2', '2[', '2[]', '2{}', '3', '31', '5', '51-', '4',
       '2/x', '2/zzz,["a"]', '0/x,{', 'x', '2"a"', '2[1]', '1/zzz',
       '51-["a",{"_placeholder":true,"num":5}]', '2/x,["*",1]',
       '3/x,1["r"]', '30[]', '2["connect","q"]', '2/c,["zz",1]']


def server_scenario_st(tier):
    big = tier == 'thorough'
    ci = st.integers(0, 7)
    tt = st.integers(0, 3)
    arg = S.tree_st(with_bytes=True, max_leaves=4)
    ret = st.one_of(st.none(), arg, st.lists(arg, max_size=2).map(tuple),
                    st.sampled_from([(), 0, '', b'', [], False, RAISE, RAISE,
                                     RAISE_T]))
    room = st.integers(0, 2)
    auth = st.one_of(st.none(), st.just({}), st.just({'token': 't'}),
                     st.just('tok'))
    decision = st.one_of(
        st.just({'d': 'accept'}), st.just({'d': 'accept'}),
        st.fixed_dictionaries({'d': st.just('accept'),
                               'ret': st.sampled_from([True, 0, '', [],
                                                       'no'])}),
        st.just({'d': 'false'}),
        st.just({'d': 'self_disconnect'}),
        # the handler fails with an ordinary exception (not a refusal)
        st.just({'d': 'crash'}),
        st.fixed_dictionaries({'d': st.just('raise'),
                               'args': st.lists(S.tree_st(
                                   with_bytes=False, max_leaves=2),
                                   max_size=3)}))
    to = st.one_of(st.none(), room, st.lists(room, min_size=1, max_size=3),
                   st.fixed_dictionaries({'sid': ci}))
    op = st.one_of(
        st.fixed_dictionaries({'op': st.just('connect'), 't': tt,
                               'ns': st.integers(0, 3), 'auth': auth}),
        st.fixed_dictionaries({'op': st.just('connect'), 't': tt,
                               'ns': st.integers(0, 2), 'auth': auth}),
        st.fixed_dictionaries({'op': st.just('cdisc'), 'c': ci}),
        st.fixed_dictionaries({'op': st.just('sdisc'), 'c': ci}),
        # server.disconnect() whose DISCONNECT packet cannot be sent: the
        # connection was closed meanwhile, or the transport's send fails
        st.fixed_dictionaries({'op': st.just('sdisc'), 'c': ci,
                               'send_fails': st.sampled_from(['closed',
                                                              'oserror'])}),
        st.fixed_dictionaries({'op': st.just('lose'), 't': tt}),
        st.fixed_dictionaries({'op': st.just('event'), 'c': ci,
                               'name': st.sampled_from(['a', 'b', 'zz']),
                               'id': st.one_of(st.none(),
                                               st.integers(0, 5)),
                               'args': st.lists(arg, max_size=2),
                               'ret': ret,
                               'stray': st.one_of(st.none(),
                                                  st.integers(0, 3))}),
        st.fixed_dictionaries({'op': st.just('event'), 'c': ci,
                               'name': st.sampled_from(['a', 'b', 'zz']),
                               'id': st.one_of(st.none(),
                                               st.integers(0, 5)),
                               'args': st.lists(arg, max_size=2),
                               'ret': ret, 'stray': st.none()}),
        # an event whose handler raises (engine.io contains the exception),
        # followed at once by an ordinary event from the same client
        st.fixed_dictionaries({'op': st.just('fault_event'), 'c': ci,
                               'binary': st.booleans(),
                               'exc': st.sampled_from([RAISE, RAISE_T]),
                               'id': st.one_of(st.none(), st.integers(0, 5)),
                               'id2': st.integers(0, 5)}),
        st.fixed_dictionaries({'op': st.just('ack'), 'c': ci,
                               'id': st.integers(0, 4),
                               'seen': st.booleans(),
                               'args': st.lists(arg, max_size=2)}),
        st.fixed_dictionaries({'op': st.just('ack'), 'c': ci,
                               'id': st.integers(0, 4),
                               'seen': st.just(True),
                               'args': st.lists(arg, max_size=2)}),
        # the same acknowledgement twice
        st.fixed_dictionaries({'op': st.just('ack'), 'c': ci,
                               'id': st.integers(0, 4),
                               'seen': st.just(True), 'dup': st.just(True),
                               'args': st.lists(arg, max_size=2)}),
        st.fixed_dictionaries({'op': st.just('emit'), 'to': to,
                               'skip': st.one_of(st.none(), ci,
                                                 st.lists(ci, max_size=2)),
                               'ns': st.integers(0, 3),
                               'data': S.payload_st(max_leaves=3),
                               # callback: absent / plain / raises after it
                               # ran / disconnects the client that answered
                               'cb': st.sampled_from([False, True, True,
                                                      'raise', 'disc']),
                               # emit(..., ignore_queue=True): local only
                               'iq': st.sampled_from([False, False, True])}),
        st.fixed_dictionaries({'op': st.just('call'), 'c': ci,
                               'ack': st.one_of(st.none(), st.lists(
                                   arg, max_size=2))}),
        st.fixed_dictionaries({'op': st.just('enter'), 'c': ci,
                               'room': room}),
        st.fixed_dictionaries({'op': st.just('leave'), 'c': ci,
                               'room': room}),
        st.fixed_dictionaries({'op': st.just('close_room'), 'room': room,
                               'ns': st.integers(0, 3)}),
        st.fixed_dictionaries({'op': st.just('save'), 'c': ci,
                               'v': st.dictionaries(
                                   st.sampled_from(['u', 'k']),
                                   S.leaves_st(), max_size=2)}),
        st.fixed_dictionaries({'op': st.just('get'), 'c': ci}),
        # an event whose handler (a function handler on / and /x, a method of
        # the class-based namespace on /c, which uses its own helpers) calls
        # the server API from inside the handler
        st.fixed_dictionaries({'op': st.just('do'), 'c': ci,
                               'id': st.integers(0, 5),
                               'script': st.lists(st.one_of(
                                   st.tuples(st.just('emit'), st.one_of(
                                       st.none(), st.just('self'), room)),
                                   st.tuples(st.just('enter'), room),
                                   st.tuples(st.just('rooms')),
                                   st.tuples(st.just('get'))).map(list),
                                   min_size=1, max_size=3)}),
        st.fixed_dictionaries({'op': st.just('do'), 'c': ci,
                               'id': st.one_of(st.none(), st.integers(0, 5)),
                               'script': st.lists(st.one_of(
                                   st.tuples(st.just('emit'), st.one_of(
                                       st.none(), st.just('self'), room)),
                                   st.tuples(st.just('enter'), room),
                                   st.tuples(st.just('leave'), room),
                                   st.tuples(st.just('close'), room),
                                   st.tuples(st.just('rooms')),
                                   st.tuples(st.just('save'),
                                             S.leaves_st(with_bytes=False)),
                                   st.tuples(st.just('get')),
                                   st.tuples(st.just('disc'))).map(list),
                                   min_size=1, max_size=4)}),
        st.fixed_dictionaries({'op': st.just('raw'), 't': tt,
                               'text': st.one_of(st.sampled_from(BAD),
                                                 S.text_st(max_size=6))}),
    )
    return st.fixed_dictionaries({
        'async_handlers': st.booleans(),
        'always_connect': st.booleans(),
        # the client manager: the default one, or a message-queue manager
        # whose publications are part of what is compared (nothing arrives
        # on its channel)
        # ('pubsub_wo': the same, created with write_only=True - it still
        # serves the clients of its own host)
        'manager': st.sampled_from(['plain', 'plain', 'pubsub',
                                    'pubsub_wo']),
        'decisions': st.lists(decision, min_size=1, max_size=5),
        # namespaces whose disconnect handler fails (an application error)
        # when the client or its transport ended the connection
        'disc_fault': st.sampled_from([[], [], ['/'], ['/x'], ['/', '/c']]),
        'init': st.lists(st.tuples(tt, st.integers(0, 2)), min_size=2,
                         max_size=5),
        'ops': st.lists(op, min_size=4, max_size=50 if big else 22)})


def norm(trace, ids):
    """Rename engine.io / socket.io ids by order of first appearance."""
    table = {}

    def walk(v):
        if isinstance(v, str):
            if v in ids:
                if v not in table:
                    table[v] = 'ID%d' % (len(table) + 1)
                return table[v]
            return v
        if isinstance(v, (list, tuple)):
            return type(v)(walk(x) for x in v)
        if isinstance(v, dict):
            return {walk(k): walk(x) for k, x in v.items()}
        return v
    out = [walk(e) for e in trace]
    return [(e[0], e[1], sorted(e[2], key=repr)) if e[0] == 'rooms' else e
            for e in out]


def run_server_scenario(case, aio, coro=False, setup=None, n_transports=4):
    """Returns (normalised trace, labels). setup(world) may instrument the
    server before any handler is registered / after (returns a hook dict)."""
    import socketio
    extra = {}
    published = []
    if case.get('manager') in ('pubsub', 'pubsub_wo'):
        from socketio.async_pubsub_manager import AsyncPubSubManager
        from socketio.pubsub_manager import PubSubManager
        base = AsyncPubSubManager if aio else PubSubManager
        plain = socketio.AsyncManager if aio else socketio.Manager

        class RecordingManager(base):
            def initialize(self):
                plain.initialize(self)      # (no listener: a silent channel)
            if aio:
                async def _publish(self, data):
                    published.append(data)
            else:
                def _publish(self, data):
                    published.append(data)
        extra['client_manager'] = RecordingManager(
            write_only=case['manager'] == 'pubsub_wo')
    w = World(aio=aio, async_handlers=case['async_handlers'],
              always_connect=case['always_connect'],
              namespaces=SERVED, **extra)
    w.published = published
    try:
        return _run(case, aio, coro and aio, setup, w, socketio,
                    n_transports)
    finally:
        w.close()


def _run(case, aio, coro, setup, w, socketio, n_transports):
    sio = w.sio
    ids = set()
    real_gen = sio.eio.generate_id

    def gen():
        i = real_gen()
        ids.add(i)
        return i
    sio.eio.generate_id = gen
    trace = []
    rets = {}
    dstate = {'n': 0}

    def result(args):
        for a in args:
            if isinstance(a, dict) and set(a) == {'__tag'}:
                r = copy.deepcopy(rets.get(a['__tag']))
                if r == RAISE:
                    raise RuntimeError('application handler fault')
                if r == RAISE_T:
                    raise TypeError('application handler fault')
                return r
        return None

    def mk(kind):
        if coro:
            async def h(*args):
                trace.append(('handler', kind, list(args)))
                return result(args)
        else:
            def h(*args):
                trace.append(('handler', kind, list(args)))
                return result(args)
        return h

    def decide(sid, auth):
        trace.append(('handler', 'connect', [sid, auth]))
        d = case['decisions'][dstate['n'] % len(case['decisions'])]
        dstate['n'] += 1
        return d

    def finish(d):
        if d['d'] == 'false':
            return False
        if d['d'] == 'raise':
            raise socketio.exceptions.ConnectionRefusedError(*d['args'])
        if d['d'] == 'crash':
            raise RuntimeError('application handler fault')
        return d.get('ret')

    def ns_of(sid):
        for n, rooms in sio.manager.rooms.items():
            if sid in rooms.get(None, {}):
                return n
        return '/'

    def on_disconnect(sid, reason):
        trace.append(('handler', 'disconnect', [sid, reason]))
        if reason != sio.reason.SERVER_DISCONNECT and \
                ns_of(sid) in case.get('disc_fault', ()):
            raise RuntimeError('application handler fault')
    if aio:
        # the connect handler is always a coroutine on the asyncio server,
        # so that it can disconnect the client it is being asked about
        async def c_connect(sid, environ, auth=None):
            d = decide(sid, auth)
            if d['d'] == 'self_disconnect':
                await sio.disconnect(sid, namespace=ns_of(sid))
                return None
            return finish(d)
    else:
        def c_connect(sid, environ, auth=None):
            d = decide(sid, auth)
            if d['d'] == 'self_disconnect':
                sio.disconnect(sid, namespace=ns_of(sid))
                return None
            return finish(d)
    if coro:
        async def c_disconnect(sid, reason):
            return on_disconnect(sid, reason)
    else:
        c_disconnect = on_disconnect
    for ns in ('/', '/x'):
        sio.on('connect', c_connect, namespace=ns)
        sio.on('disconnect', c_disconnect, namespace=ns)
    sio.on('a', mk('fn:/:a'), namespace='/')
    sio.on('b', mk('fn:/:b'), namespace='/')
    sio.on('a', mk('fn:/x:a'), namespace='/x')
    sio.on('*', mk('catchall:/x'), namespace='/x')
    base = socketio.AsyncNamespace if aio else socketio.Namespace
    nso = base('/c')
    nso.on_a = mk('class:/c:a')
    nso.on_connect = c_connect
    nso.on_disconnect = c_disconnect

    def mk_do(api_obj, ns):
        # api_obj is the server (function handlers pass the namespace) or
        # the class-based namespace object (its helpers imply it)
        kw = {} if api_obj is nso else {'namespace': ns}

        def target(sid, where):
            if where is None:
                return {}
            if where == 'self':
                return {'to': sid}
            return {'to': ROOMS[where]}
        if aio:
            async def h(sid, tg, script):
                trace.append(('handler', 'do:' + ns, [sid, script]))
                out = []
                for a in script:
                    if a[0] == 'emit':
                        await api_obj.emit('h', a[1], **target(sid, a[1]),
                                           **kw)
                    elif a[0] == 'enter':
                        await api_obj.enter_room(sid, ROOMS[a[1]], **kw)
                    elif a[0] == 'leave':
                        await api_obj.leave_room(sid, ROOMS[a[1]], **kw)
                    elif a[0] == 'close':
                        await api_obj.close_room(ROOMS[a[1]], **kw)
                    elif a[0] == 'rooms':
                        out.append(sorted((r for r in api_obj.rooms(
                            sid, **kw) if r != sid), key=repr))
                    elif a[0] == 'save':
                        await api_obj.save_session(sid, {'v': a[1]}, **kw)
                    elif a[0] == 'get':
                        out.append(copy.deepcopy(
                            await api_obj.get_session(sid, **kw)))
                    elif a[0] == 'disc':
                        await api_obj.disconnect(sid, **kw)
                return out
        else:
            def h(sid, tg, script):
                trace.append(('handler', 'do:' + ns, [sid, script]))
                out = []
                for a in script:
                    if a[0] == 'emit':
                        api_obj.emit('h', a[1], **target(sid, a[1]), **kw)
                    elif a[0] == 'enter':
                        api_obj.enter_room(sid, ROOMS[a[1]], **kw)
                    elif a[0] == 'leave':
                        api_obj.leave_room(sid, ROOMS[a[1]], **kw)
                    elif a[0] == 'close':
                        api_obj.close_room(ROOMS[a[1]], **kw)
                    elif a[0] == 'rooms':
                        out.append(sorted((r for r in api_obj.rooms(
                            sid, **kw) if r != sid), key=repr))
                    elif a[0] == 'save':
                        api_obj.save_session(sid, {'v': a[1]}, **kw)
                    elif a[0] == 'get':
                        out.append(copy.deepcopy(
                            api_obj.get_session(sid, **kw)))
                    elif a[0] == 'disc':
                        api_obj.disconnect(sid, **kw)
                return out
        return h
    sio.on('do', mk_do(sio, '/'), namespace='/')
    sio.on('do', mk_do(sio, '/x'), namespace='/x')
    nso.on_do = mk_do(nso, '/c')
    sio.register_namespace(nso)
    hooks = setup(w) if setup else {}

    first_app_t = len(w.t)
    for _ in range(n_transports):
        w.open()
    app_ts = list(range(first_app_t, first_app_t + n_transports))
    labels = {'entry_points': set(), 'faults': 0}
    cb_ctr = [0]
    seen_ids = {}     # (transport, ns) -> ids of events that want an ACK

    def flush(step):
        while w.published:
            m = dict(w.published.pop(0))
            m.pop('host_id', None)
            if m.get('namespace') == '/admin':
                continue    # (the admin's own reports)
            cbk = m.get('callback')
            if isinstance(cbk, tuple):
                m['callback'] = list(cbk[:2]) + ['<id>']
            trace.append(('published', sorted(m.items(), key=repr)))
        for t in app_ts:
            try:
                pk = w.recv(t)
            except Exception as e:
                trace.append(('undecodable-frames', t, type(e).__name__))
                continue
            for p in pk:
                trace.append(('frame', t - first_app_t, p['type'], p['nsp'],
                              p['id'], p['data']))
                if p['type'] in (2, 5) and p['id'] is not None:
                    seen_ids.setdefault((t, p['nsp']), []).append(p['id'])
        if hooks.get('after_step'):
            hooks['after_step'](step)
        while w.h.swallowed:
            msg, exc = w.h.swallowed.pop(0)
            trace.append(('contained', type(exc).__name__))
        while w.h.bg_errors:
            trace.append(('bg-error', type(w.h.bg_errors.pop(0)).__name__))

    def api(step, name, fn):
        labels['entry_points'].add(name)
        try:
            r = w.do(fn())
            w.h.settle()
            trace.append(('result', step, name, r if not isinstance(
                r, (dict,)) else copy.deepcopy(r)))
        except Exception as e:
            if as_violation(e) is None and not isinstance(
                    e, socketio.exceptions.SocketIOError):
                raise
            trace.append(('raised', step, name, type(e).__name__))

    def conn(t, ns, auth=None):
        w.send(t, wire.CONNECT, ns, data=auth)
        w.h.settle()
        try:
            pk = w.recv(t)
        except Exception as e:
            trace.append(('undecodable-frames', t, type(e).__name__))
            return
        for p in pk:
            trace.append(('frame', t - first_app_t, p['type'], p['nsp'],
                          p['id'], p['data']))
            if p['type'] == wire.CONNECT and isinstance(p['data'], dict) \
                    and 'sid' in p['data']:
                w.clients.append({'t': t, 'ns': ns, 'sid': p['data']['sid'],
                                  'alive': True})
            if p['type'] == wire.DISCONNECT and w.clients and \
                    w.clients[-1]['t'] == t and w.clients[-1]['ns'] == ns:
                w.clients[-1]['alive'] = False

    for t, n in case['init']:
        t = app_ts[t % n_transports]
        if w.client_on(t, SERVED[n]) is None:
            conn(t, SERVED[n])
    flush('init')
    tag = [0]
    for step, op in enumerate(case['ops']):
        k = op['op']
        lv = w.live()
        if 't' in op:
            t = app_ts[op['t'] % n_transports]
        if k == 'connect':
            if w.t_alive[t]:
                labels['entry_points'].add('CONNECT')
                conn(t, NSS[op['ns']], op['auth'])
        elif k == 'lose':
            if w.t_alive[t]:
                labels['entry_points'].add('loss')
                labels['faults'] += 1
                w.lose(t)
        elif k == 'raw':
            if w.t_alive[t]:
                labels['entry_points'].add('raw')
                labels['faults'] += 1
                w.send_raw(t, op['text'])
                w.h.settle()
        elif k == 'close_room':
            api(step, 'close_room', lambda: sio.close_room(
                ROOMS[op['room']], namespace=NSS[op['ns']]))
        elif k == 'emit':
            ns = NSS[op['ns']]
            to = op['to']
            kw = {}
            if isinstance(to, dict):
                if not lv:
                    continue
                c = w.clients[lv[to['sid'] % len(lv)]]
                kw['to'] = c['sid']
                ns = c['ns']
            elif isinstance(to, list):
                kw['to'] = [ROOMS[r] for r in to]
            elif to is not None:
                kw['to'] = ROOMS[to]
            sk = op['skip']
            if sk is not None and w.clients:
                if isinstance(sk, list):
                    kw['skip_sid'] = [w.clients[s % len(w.clients)]['sid']
                                      for s in sk]
                else:
                    kw['skip_sid'] = w.clients[sk % len(w.clients)]['sid']
            if op['cb'] and isinstance(to, dict):
                cb_ctr[0] += 1
                kk = cb_ctr[0]
                mode = op['cb']
                tsid, tns = kw['to'], ns
                if coro or (aio and mode == 'disc'):
                    async def cb(*a, kk=kk, mode=mode, tsid=tsid, tns=tns):
                        trace.append(('callback', kk, list(a)))
                        if mode == 'raise':
                            raise RuntimeError('application handler fault')
                        if mode == 'disc':
                            await sio.disconnect(tsid, namespace=tns)
                elif aio:
                    def cb(*a, kk=kk, mode=mode):
                        trace.append(('callback', kk, list(a)))
                        if mode == 'raise':
                            raise RuntimeError('application handler fault')
                else:
                    def cb(*a, kk=kk, mode=mode, tsid=tsid, tns=tns):
                        trace.append(('callback', kk, list(a)))
                        if mode == 'raise':
                            raise RuntimeError('application handler fault')
                        if mode == 'disc':
                            sio.disconnect(tsid, namespace=tns)
                kw['callback'] = cb
            if op.get('iq'):
                kw['ignore_queue'] = True
            api(step, 'emit', lambda: sio.emit('ev', op['data'],
                                               namespace=ns, **kw))
        elif not lv:
            continue
        else:
            ci = lv[op['c'] % len(lv)]
            c = w.clients[ci]
            if k == 'cdisc':
                labels['entry_points'].add('DISCONNECT')
                w.send(c['t'], wire.DISCONNECT, c['ns'])
                w.h.settle()
                w.mark_dead(ci)
            elif k == 'sdisc':
                sf = op.get('send_fails')
                if sf:
                    import engineio
                    exc = engineio.exceptions.SocketIsClosedError() \
                        if sf == 'closed' else OSError('send failed')
                    real = (sio.eio.send, sio.eio.send_packet)
                    victim = w.t[c['t']]

                    def mk_bad(orig):
                        # (only the victim's transport is affected)
                        if w.h.aio:
                            async def bad(eio_sid, *a, **k):
                                if eio_sid == victim:
                                    raise exc
                                return await orig(eio_sid, *a, **k)
                        else:
                            def bad(eio_sid, *a, **k):
                                if eio_sid == victim:
                                    raise exc
                                return orig(eio_sid, *a, **k)
                        return bad
                    sio.eio.send = mk_bad(real[0])
                    sio.eio.send_packet = mk_bad(real[1])
                    try:
                        try:
                            r = w.do(sio.disconnect(c['sid'],
                                                    namespace=c['ns']))
                            trace.append(('result', step, 'disconnect', r))
                        except (OSError, engineio.exceptions.EngineIOError) \
                                as e:
                            trace.append(('raised', step, 'disconnect',
                                          type(e).__name__))
                    finally:
                        sio.eio.send, sio.eio.send_packet = real
                    w.h.settle()
                    trace.append(('connected-after', step,
                                  sio.manager.is_connected(c['sid'],
                                                           c['ns']),
                                  sorted(map(repr, sio.rooms(
                                      c['sid'], namespace=c['ns'])))))
                    labels['faults'] += 1
                    labels['entry_points'].add('disconnect-send-fails')
                    if sio.manager.is_connected(c['sid'], c['ns']):
                        continue
                else:
                    api(step, 'disconnect', lambda: sio.disconnect(
                        c['sid'], namespace=c['ns']))
                w.mark_dead(ci)
            elif k == 'event':
                labels['entry_points'].add('EVENT')
                ns = c['ns']
                if op['stray'] is not None:
                    ns = NSS[op['stray']]
                tag[0] += 1
                rets[tag[0]] = op['ret']
                w.send(c['t'], wire.EVENT, ns, op['id'],
                       [op['name'], {'__tag': tag[0]}] + list(op['args']))
                w.h.settle()
            elif k == 'do':
                labels['entry_points'].add('handler-API')
                tag[0] += 1
                w.send(c['t'], wire.EVENT, c['ns'], op['id'],
                       ['do', {'__tag': tag[0]}, [list(a) for a in
                                                  op['script']]])
                w.h.settle()
                if any(a[0] == 'disc' for a in op['script']):
                    w.mark_dead(ci)
            elif k == 'fault_event':
                labels['entry_points'].add('EVENT')
                labels['faults'] += 1
                tag[0] += 1
                rets[tag[0]] = op.get('exc', RAISE)
                args = [{'__tag': tag[0]}] + ([b'bin', {'k': b'x'}]
                                              if op['binary'] else ['txt'])
                w.send(c['t'], wire.EVENT, c['ns'], op['id'], ['a'] + args)
                w.h.settle()
                tag[0] += 1
                rets[tag[0]] = 'after-fault'
                w.send(c['t'], wire.EVENT, c['ns'], op['id2'],
                       ['a', {'__tag': tag[0]}])
                w.h.settle()
            elif k == 'ack':
                labels['entry_points'].add('ACK')
                pid = op['id']
                pool = seen_ids.get((c['t'], c['ns']))
                if op.get('seen') and pool:
                    pid = pool[op['id'] % len(pool)]
                w.send(c['t'], wire.ACK, c['ns'], pid, list(op['args']))
                w.h.settle()
                if op.get('dup') and w.t_alive[c['t']]:
                    w.send(c['t'], wire.ACK, c['ns'], pid, list(op['args']))
                    w.h.settle()
            elif k == 'call':
                if not case['async_handlers']:
                    api(step, 'call', lambda: sio.call(
                        'q', 1, to=c['sid'], namespace=c['ns'], timeout=1))
                else:
                    def during(*_):
                        try:
                            pk = w.recv(c['t'])
                        except Exception:
                            return
                        for p in pk:
                            trace.append(('frame', c['t'] - first_app_t,
                                          p['type'], p['nsp'], p['id'],
                                          p['data']))
                            if op['ack'] is not None and p['id'] is not \
                                    None and p['type'] in (2, 5):
                                w.send(c['t'], wire.ACK, c['ns'], p['id'],
                                       list(op['ack']))
                    labels['entry_points'].add('call')
                    if aio:
                        task = w.h.loop.spawn(sio.call(
                            'q', 1, to=c['sid'], namespace=c['ns'],
                            timeout=1))
                        w.h.loop.run_until_idle()
                        during()
                        w.h.loop.run_until_idle()
                        while not task.done():
                            if not w.h.loop.advance():
                                break
                        if task.done() and task.exception() is None:
                            trace.append(('result', step, 'call',
                                          task.result()))
                        else:
                            trace.append(('raised', step, 'call', type(
                                task.exception()).__name__
                                if task.done() else 'stuck'))
                    else:
                        w.h.on_wait = during
                        try:
                            api(step, 'call', lambda: sio.call(
                                'q', 1, to=c['sid'], namespace=c['ns'],
                                timeout=1))
                        finally:
                            w.h.on_wait = None
            elif k in ('enter', 'leave'):
                fn = sio.enter_room if k == 'enter' else sio.leave_room
                api(step, k, lambda: fn(c['sid'], ROOMS[op['room']],
                                        namespace=c['ns']))
            elif k == 'save':
                api(step, 'save_session', lambda: sio.save_session(
                    c['sid'], copy.deepcopy(op['v']), namespace=c['ns']))
            elif k == 'get':
                api(step, 'get_session', lambda: sio.get_session(
                    c['sid'], namespace=c['ns']))
        flush(step)
        # observable state after every step
        for i, c in enumerate(w.clients):
            trace.append(('rooms', i, sorted(
                ([type(r).__name__, r] for r in sio.rooms(
                    c['sid'], namespace=c['ns'])), key=repr)))
    for t in app_ts:
        if w.t_alive[t]:
            w.lose(t)
    flush('end')
    ids.update(w.t)
    out = norm(trace, ids)
    labels['entry_points'] = len(labels['entry_points'])
    return out, labels
