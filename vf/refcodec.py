"""Independent Socket.IO v5 packet codec, written from the protocol text
(https://socket.io/docs/v4/socket-io-protocol/ "Packet encoding"):

    <packet type>[<# of binary attachments>-][<namespace>,][<ack id>][JSON]

Shares no code with socketio/packet.py.  The payload is handled by the stdlib
json module directly and, for the conformance check, by the small strict token
scanner below (which rejects insignificant whitespace and NaN/Infinity).
"""
import json

BINARY_TYPES = (5, 6)


class RefError(Exception):
    pass


# ---------------------------------------------------------------- encoder

def deconstruct(data, out):
    """Replace bytes leaves by placeholders, numbering depth-first in
    document order."""
    if isinstance(data, bytes):
        out.append(data)
        return {'_placeholder': True, 'num': len(out) - 1}
    if isinstance(data, (list, tuple)):
        return [deconstruct(x, out) for x in data]
    if isinstance(data, dict):
        return {k: deconstruct(v, out) for k, v in data.items()}
    return data


def _esc_string(s, choice):
    """JSON string with escaping choices: bit0 ensure_ascii, bit1 escape
    solidus, bit2 upper-case hex."""
    out = ['"']
    for ch in s:
        o = ord(ch)
        if ch == '"':
            out.append('\\"')
        elif ch == '\\':
            out.append('\\\\')
        elif ch == '/' and choice & 2:
            out.append('\\/')
        elif o < 0x20:
            short = {8: '\\b', 9: '\\t', 10: '\\n', 12: '\\f', 13: '\\r'}
            if o in short and not choice & 4:
                out.append(short[o])
            else:
                out.append('\\u%04x' % o)
        elif o > 0x7e and choice & 1:
            if o > 0xffff:
                o -= 0x10000
                hi, lo = 0xd800 + (o >> 10), 0xdc00 + (o & 0x3ff)
                fmt = '\\u%04X\\u%04X' if choice & 4 else '\\u%04x\\u%04x'
                out.append(fmt % (hi, lo))
            else:
                out.append(('\\u%04X' if choice & 4 else '\\u%04x') % o)
        else:
            out.append(ch)
    out.append('"')
    return ''.join(out)


def _dump(v, choice, ws):
    if v is None:
        return 'null'
    if v is True:
        return 'true'
    if v is False:
        return 'false'
    if isinstance(v, int):
        return str(v)
    if isinstance(v, float):
        r = repr(v)
        if r in ('nan', 'inf', '-inf'):
            raise RefError('non-finite float')
        return r
    if isinstance(v, str):
        return _esc_string(v, choice)
    if isinstance(v, (list, tuple)):
        sep = ',' + ws
        return '[' + ws + sep.join(_dump(x, choice, ws) for x in v) + ws + ']'
    if isinstance(v, dict):
        sep = ',' + ws
        return '{' + ws + sep.join(
            _esc_string(k, choice) + ws + ':' + ws + _dump(x, choice, ws)
            for k, x in v.items()) + ws + '}'
    raise RefError('not JSON: %r' % (v,))


def header(ptype, natt, nsp, pid):
    h = str(ptype)
    if ptype in BINARY_TYPES:
        h += str(natt) + '-'
    if nsp is not None and nsp != '/':
        h += nsp + ','
    if pid is not None:
        h += str(pid)
    return h


def encode(ptype, nsp, pid, data, choice=0, ws=''):
    """Returns (text_frame, attachments).  ptype must already be the binary
    type when the payload has bytes."""
    atts = []
    head = str(ptype)
    body = data
    if ptype in BINARY_TYPES:
        body = deconstruct(data, atts)
        head += str(len(atts)) + '-'
    if nsp is not None and nsp != '/':
        head += nsp + ','
    if pid is not None:
        head += str(pid)
    if body is not None:
        head += _dump(body, choice, ws)
    return head, atts


# ---------------------------------------------------------------- decoder

def _strict_json_scan(s):
    """Validate s as one JSON value with no insignificant whitespace and no
    non-standard tokens.  Raises RefError."""
    n = len(s)
    pos = 0

    def err(msg):
        raise RefError('%s at %d in %r' % (msg, pos, s[:80]))

    def string():
        nonlocal pos
        if pos >= n or s[pos] != '"':
            err('expected string')
        pos += 1
        while True:
            if pos >= n:
                err('unterminated string')
            c = s[pos]
            if c == '"':
                pos += 1
                return
            if c == '\\':
                if pos + 1 >= n:
                    err('bad escape')
                e = s[pos + 1]
                if e in '"\\/bfnrt':
                    pos += 2
                elif e == 'u':
                    h = s[pos + 2:pos + 6]
                    if len(h) != 4 or any(x not in '0123456789abcdefABCDEF'
                                          for x in h):
                        err('bad \\u escape')
                    pos += 6
                else:
                    err('bad escape')
            elif ord(c) < 0x20:
                err('raw control character in string')
            else:
                pos += 1

    def number():
        nonlocal pos
        start = pos
        if pos < n and s[pos] == '-':
            pos += 1
        if pos >= n:
            err('bad number')
        if s[pos] == '0':
            pos += 1
        elif s[pos] in '123456789':
            while pos < n and s[pos] in '0123456789':
                pos += 1
        else:
            err('bad number')
        if pos < n and s[pos] == '.':
            pos += 1
            if pos >= n or s[pos] not in '0123456789':
                err('bad fraction')
            while pos < n and s[pos] in '0123456789':
                pos += 1
        if pos < n and s[pos] in 'eE':
            pos += 1
            if pos < n and s[pos] in '+-':
                pos += 1
            if pos >= n or s[pos] not in '0123456789':
                err('bad exponent')
            while pos < n and s[pos] in '0123456789':
                pos += 1
        if pos == start:
            err('bad number')

    def value(depth=0):
        nonlocal pos
        if pos >= n:
            err('unexpected end')
        c = s[pos]
        if c == '"':
            string()
        elif c == '[':
            pos += 1
            if pos < n and s[pos] == ']':
                pos += 1
                return
            while True:
                value(depth + 1)
                if pos < n and s[pos] == ',':
                    pos += 1
                    continue
                if pos < n and s[pos] == ']':
                    pos += 1
                    return
                err('expected , or ]')
        elif c == '{':
            pos += 1
            if pos < n and s[pos] == '}':
                pos += 1
                return
            while True:
                string()
                if pos >= n or s[pos] != ':':
                    err('expected :')
                pos += 1
                value(depth + 1)
                if pos < n and s[pos] == ',':
                    pos += 1
                    continue
                if pos < n and s[pos] == '}':
                    pos += 1
                    return
                err('expected , or }')
        elif s.startswith('true', pos):
            pos += 4
        elif s.startswith('false', pos):
            pos += 5
        elif s.startswith('null', pos):
            pos += 4
        elif c == '-' or c in '0123456789':
            number()
        else:
            err('unexpected character %r' % c)

    value()
    if pos != n:
        err('trailing characters')


def decode(frame, strict=True):
    """Parse a text frame per the protocol grammar.
    Returns dict(type, attachments, nsp, id, data) with placeholders in data.
    strict: also require the canonical (compact) payload."""
    if not isinstance(frame, str) or not frame:
        raise RefError('empty or non-text frame')
    i = 0
    if frame[0] not in '0123456':
        raise RefError('bad type %r' % frame[0])
    ptype = ord(frame[0]) - 48
    i = 1
    natt = 0
    if ptype in BINARY_TYPES:
        j = i
        while j < len(frame) and frame[j] in '0123456789':
            j += 1
        if j == i or j >= len(frame) or frame[j] != '-':
            raise RefError('binary packet without "<n>-"')
        digits = frame[i:j]
        if len(digits) > 1 and digits[0] == '0':
            raise RefError('attachment count with leading zero')
        natt = int(digits)
        i = j + 1
    nsp = '/'
    if i < len(frame) and frame[i] == '/':
        j = frame.find(',', i)
        if j == -1:
            nsp = frame[i:]
            i = len(frame)
        else:
            nsp = frame[i:j]
            i = j + 1
        if strict and nsp == '/':
            raise RefError('default namespace spelled out')
    pid = None
    j = i
    while j < len(frame) and frame[j] in '0123456789':
        j += 1
    if j > i:
        digits = frame[i:j]
        if strict and len(digits) > 1 and digits[0] == '0':
            raise RefError('id with leading zero')
        pid = int(digits)
        i = j
    data = None
    if i < len(frame):
        body = frame[i:]
        if strict:
            _strict_json_scan(body)
        try:
            data = json.loads(body)
        except ValueError as e:
            raise RefError('payload is not JSON: %s' % e)
    return {'type': ptype, 'attachments': natt, 'nsp': nsp, 'id': pid,
            'data': data}


def check_placeholders(data, natt):
    """Placeholders must be exactly {"_placeholder":true,"num":k}, k=0..n-1 in
    depth-first document order."""
    seen = []

    def walk(v):
        if isinstance(v, list):
            for x in v:
                walk(x)
        elif isinstance(v, dict):
            if '_placeholder' in v:
                if set(v) != {'_placeholder', 'num'} or \
                        v['_placeholder'] is not True or \
                        type(v['num']) is not int:
                    raise RefError('malformed placeholder %r' % (v,))
                seen.append(v['num'])
            else:
                for x in v.values():
                    walk(x)
    walk(data)
    if seen != list(range(natt)):
        raise RefError('placeholder numbering %r for %d attachments'
                       % (seen, natt))


def reconstruct(data, atts):
    if isinstance(data, list):
        return [reconstruct(x, atts) for x in data]
    if isinstance(data, dict):
        if data.get('_placeholder') is True and set(data) == \
                {'_placeholder', 'num'}:
            return atts[data['num']]
        return {k: reconstruct(v, atts) for k, v in data.items()}
    return data
