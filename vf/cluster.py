"""Hosts joined by an in-memory ordered pub/sub channel.

Each host is a real Server (AsyncServer) on the harness transport with a
PubSubManager (AsyncPubSubManager) subclass whose _publish appends
pickle.dumps(message) to a shared list and whose _listen yields the next k
unread messages and returns - so a "host h consumes k messages" step runs the
real listener loop body (_thread) over real pickled bytes.
"""
import pickle

from . import core
from . import wire
from .detloop import DetLoop
from .eio_server import ServerHarness


def _manager_classes():
    socketio = core.bootstrap()
    from socketio.pubsub_manager import PubSubManager
    from socketio.async_pubsub_manager import AsyncPubSubManager

    class HPubSub(PubSubManager):
        name = 'harness'

        def __init__(self, bus, **kw):
            super().__init__(**kw)
            self.bus = bus
            self.cursor = 0
            self.take = 0
            self.listen_faults = []   # positions at which _listen raises
            self.published = 0
            self.consumed_at = {}     # bus index -> step of consumption
            self.on_yield = None
            self.subscriptions = 0    # _listen() iterators started
            self.backend_failures = 0

        def _publish(self, data):
            self.published += 1
            self.bus.append((self.bus.step, pickle.dumps(data)))

        def _listen(self):
            self.subscriptions += 1
            while self.take > 0 and self.cursor < len(self.bus):
                if self.cursor in self.listen_faults:
                    self.listen_faults.remove(self.cursor)
                    self.backend_failures += 1
                    raise ConnectionError('injected listen() failure')
                msg = self.bus[self.cursor][1]
                self.consumed_at[self.cursor] = self.bus.step
                if self.on_yield is not None:
                    self.on_yield(self.cursor)
                self.cursor += 1
                self.take -= 1
                yield msg

    class HAsyncPubSub(AsyncPubSubManager):
        name = 'harness'

        def __init__(self, bus, **kw):
            super().__init__(**kw)
            self.bus = bus
            self.cursor = 0
            self.take = 0
            self.listen_faults = []
            self.published = 0
            self.consumed_at = {}
            self.on_yield = None
            self.subscriptions = 0
            self.backend_failures = 0

        async def _publish(self, data):
            self.published += 1
            self.bus.append((self.bus.step, pickle.dumps(data)))

        async def _listen(self):
            self.subscriptions += 1
            while self.take > 0 and self.cursor < len(self.bus):
                if self.cursor in self.listen_faults:
                    self.listen_faults.remove(self.cursor)
                    self.backend_failures += 1
                    raise ConnectionError('injected listen() failure')
                msg = self.bus[self.cursor][1]
                self.consumed_at[self.cursor] = self.bus.step
                if self.on_yield is not None:
                    self.on_yield(self.cursor)
                self.cursor += 1
                self.take -= 1
                yield msg
    return socketio, HPubSub, HAsyncPubSub


class Bus(list):
    step = 0
    CAP = 4000      # no generated history publishes anywhere near this

    def append(self, item):
        if len(self) >= self.CAP:
            raise core.Abort('message-storm',
                             'more than %d messages on the pub/sub channel: '
                             'the hosts keep answering each other' % self.CAP)
        super().append(item)


class Host:
    def __init__(self, cluster, idx):
        self.cluster = cluster
        self.idx = idx
        aio = cluster.aio
        mcls = cluster.HAsyncPubSub if aio else cluster.HPubSub
        self.mgr = mcls(cluster.bus)
        self.h = ServerHarness(aio=aio, loop=cluster.loop,
                               client_manager=self.mgr,
                               **cluster.server_kwargs)
        self.sio = self.h.sio
        self.listener_ended = 0
        self.resubscribed = 0
        self.died = False
        self.logged = []
        # the listener logs through server.logger
        self.sio.logger = _Log(self)

    def consume(self, k):
        """Run the real listener loop over the next k unread messages."""
        self.mgr.take = k
        s0 = self.mgr.subscriptions - self.mgr.backend_failures

        def eos():
            return len([1 for e in self.logged if e[0] == 'error' and
                        'exited unexpectedly' in str(e[1])])
        n0 = eos()
        self.h.do(self.mgr._thread())
        if eos() != n0 + 1:
            # the loop did not end because the stream ended (the harness's
            # end-of-stream is the only legitimate way out): the listener
            # of a real deployment would be dead from here on
            self.died = True
        self.listener_ended += 1
        # a subscription is given up only when the backend failed (with
        # the bundled Kombu / aio_pika backends a new subscription is a new
        # queue: what was waiting in the old one is lost)
        self.resubscribed += (self.mgr.subscriptions -
                              self.mgr.backend_failures) - s0 - 1
        self.h.settle()

    def unread(self):
        return len(self.cluster.bus) - self.mgr.cursor


class _Log:
    def __init__(self, host):
        self.host = host

    def exception(self, msg, *a, **k):
        import sys
        self.host.logged.append(('exception', msg, sys.exc_info()[1]))

    def error(self, msg, *a, **k):
        self.host.logged.append(('error', msg, None))

    def _noop(self, *a, **k):
        pass
    debug = info = warning = critical = log = _noop

    def isEnabledFor(self, lvl):
        return False


class Cluster:
    def __init__(self, aio=False, nhosts=2, **server_kwargs):
        self.socketio, self.HPubSub, self.HAsyncPubSub = _manager_classes()
        self.aio = aio
        self.loop = DetLoop() if aio else None
        self.bus = Bus()
        self.server_kwargs = server_kwargs
        self.hosts = [Host(self, i) for i in range(nhosts)]
        self.clients = []      # dicts: host, t (eio sid), ns, sid, alive
        self.readers = {}
        self.wo = None

    def write_only(self):
        if self.wo is None:
            mcls = self.HAsyncPubSub if self.aio else self.HPubSub
            self.wo = mcls(self.bus, write_only=True)
        return self.wo

    def do(self, x):
        return self.hosts[0].h.do(x)

    def connect(self, hi, ns):
        host = self.hosts[hi]
        eio_sid = host.h.open()
        for f in wire.frames(wire.CONNECT, ns):
            host.h.feed(eio_sid, f)
        r = wire.Reader()
        pk = r.read(host.h.drain_msgs(eio_sid))
        sid = None
        for p in pk:
            if p['type'] == wire.CONNECT:
                sid = p['data']['sid']
        if sid is None:
            return None
        self.clients.append({'host': hi, 't': eio_sid, 'ns': ns, 'sid': sid,
                             'alive': True})
        self.readers[len(self.clients) - 1] = r
        return len(self.clients) - 1

    def recv(self, ci):
        c = self.clients[ci]
        host = self.hosts[c['host']]
        return self.readers[ci].read(host.h.drain_msgs(c['t']))

    def send(self, ci, ptype, pid=None, data=None):
        c = self.clients[ci]
        host = self.hosts[c['host']]
        for f in wire.frames(ptype, c['ns'], pid, data):
            host.h.feed(c['t'], f)

    def drain_all(self, limit=1000):
        """Every host consumes until no host has unread messages."""
        for _ in range(limit):
            busy = [h for h in self.hosts if h.unread()]
            if not busy:
                return
            for h in busy:
                h.consume(h.unread())
        raise core.HarnessError('channel never drains')

    def close(self):
        if self.loop is not None:
            self.loop.shutdown()
            self.loop = None
