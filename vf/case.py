"""JSON (de)serialisation of cases.

A case is a plain value: dict / list / str / int / float / bool / None, plus
bytes (tagged base64) and tuples (tagged).  Replay files are exactly this.
"""
import base64
import hashlib
import json
import math


def to_jsonable(v):
    if isinstance(v, bytes):
        return {'__b64__': base64.b64encode(v).decode('ascii')}
    if isinstance(v, tuple):
        return {'__tuple__': [to_jsonable(x) for x in v]}
    if isinstance(v, list):
        return [to_jsonable(x) for x in v]
    if isinstance(v, dict):
        if all(isinstance(k, str) for k in v):
            return {k: to_jsonable(x) for k, x in v.items()}
        return {'__items__': [[to_jsonable(k), to_jsonable(x)]
                              for k, x in v.items()]}
    if isinstance(v, float):
        if math.isnan(v) or math.isinf(v):
            return {'__float__': repr(v)}
        return v
    if isinstance(v, (str, int, bool)) or v is None:
        return v
    raise TypeError('not serialisable in a case: %r' % (v,))


def from_jsonable(v):
    if isinstance(v, list):
        return [from_jsonable(x) for x in v]
    if isinstance(v, dict):
        if len(v) == 1:
            if '__b64__' in v:
                return base64.b64decode(v['__b64__'])
            if '__tuple__' in v:
                return tuple(from_jsonable(x) for x in v['__tuple__'])
            if '__items__' in v:
                return {from_jsonable(k): from_jsonable(x)
                        for k, x in v['__items__']}
            if '__float__' in v:
                return float(v['__float__'])
        return {k: from_jsonable(x) for k, x in v.items()}
    return v


def dumps(case, indent=None):
    return json.dumps(to_jsonable(case), sort_keys=True, indent=indent,
                      ensure_ascii=True)


def loads(text):
    return from_jsonable(json.loads(text))


def digest(case):
    return hashlib.sha1(dumps(case).encode('ascii')).hexdigest()


def strict_eq(a, b):
    """Type-strict deep equality: True != 1, 1 != 1.0, bytes != str,
    -0.0 != 0.0, list != tuple; dict order ignored."""
    if type(a) is not type(b):
        return False
    if isinstance(a, float):
        return a == b and math.copysign(1, a) == math.copysign(1, b)
    if isinstance(a, (list, tuple)):
        return len(a) == len(b) and all(strict_eq(x, y) for x, y in zip(a, b))
    if isinstance(a, dict):
        if len(a) != len(b):
            return False
        for k, x in a.items():
            if k not in b or not strict_eq(x, b[k]):
                return False
        return True
    return a == b
