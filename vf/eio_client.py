"""Client engine without network.

The real socketio.Client / AsyncClient runs on its real engineio.Client /
AsyncClient object; on that *instance* only the network-facing pieces are
replaced: _connect_polling/_connect_websocket (outcome supplied by the case),
_send_packet (same state guard as the original, then an outbox), the
read/write loop tasks (dummies), and for the threaded client
start_background_task / create_event / sleep.  Everything else - disconnect()
with its 'disconnecting' state, _receive_packet (so a server CLOSE runs the
real disconnect(abort=True, reason=SERVER_DISCONNECT)), _trigger_event,
_reset() - is the real code.
"""
import inspect

from . import core
from .detloop import DetLoop
from .eio_server import BgHandle, HEvent


class DummyTask:
    def join(self, *a, **k):
        pass

    def __await__(self):
        if False:
            yield
        return None

    def cancel(self):
        pass

    def done(self):
        return True


class _DummyWS:
    def __init__(self, aio):
        self.aio = aio

    def close(self):
        if self.aio:
            async def c():
                return None
            return c()


class ClientHarness:
    def __init__(self, aio=False, loop=None, bg='inline', **kwargs):
        socketio = core.bootstrap()
        self.aio = aio
        self.loop = loop
        self.own_loop = False
        if aio and loop is None:
            self.loop = DetLoop()
            self.own_loop = True
        kwargs.setdefault('handle_sigint', False)
        if aio:
            self.sio = socketio.AsyncClient(**kwargs)
        else:
            self.sio = socketio.Client(**kwargs)
        eio = self.eio = self.sio.eio
        import engineio
        from engineio import packet as eio_packet
        self.engineio = engineio
        self.eio_packet = eio_packet
        self.reason = engineio.Client.reason
        self.outbox = []          # engine.io packets handed to the transport
        self.attempts = []        # arguments of every engine connect attempt
        self.plan = []            # outcomes of the next connect attempts
        self.default_outcome = 'ok'
        self.on_engine_connected = None   # hook: after a successful open
        self.bg_mode = bg
        self.bg = []
        self.bg_errors = []
        self.waits = []
        self.sleeps = []
        self.on_wait = None
        self.swallowed = []
        self.started = []         # names of background tasks started
        self.tasks = []
        self.n_conn = 0
        from .eio_server import _RecLogger
        eio.logger = _RecLogger(self)
        h = self

        if aio:
            async def _connect(url, headers, engineio_path):
                return await h._do_connect_async(url, headers, engineio_path)

            async def _send_packet(pkt):
                if eio.state != 'connected':
                    return
                h.outbox.append((pkt.packet_type, pkt.data))

            def _start_task(target, *args, **kwargs):
                import asyncio
                h.started.append(getattr(target, '__name__', '?'))
                task = asyncio.ensure_future(target(*args, **kwargs))
                h.tasks.append((getattr(target, '__name__', '?'), task))

                def done(t):
                    if not t.cancelled() and t.exception() is not None:
                        h.bg_errors.append(t.exception())
                task.add_done_callback(done)
                return task
            eio.start_background_task = _start_task
        else:
            def _connect(url, headers, engineio_path):
                return h._do_connect(url, headers, engineio_path)

            def _send_packet(pkt):
                if eio.state != 'connected':
                    return
                h.outbox.append((pkt.packet_type, pkt.data))
            eio.start_background_task = self._start_bg
            eio.create_event = lambda *a, **k: HEvent(self)
            eio.sleep = lambda s=0: self.sleeps.append(s)
        eio._connect_polling = _connect
        eio._connect_websocket = _connect
        eio._send_packet = _send_packet

    # -- engine connect ------------------------------------------------------
    def _outcome(self, url, headers, engineio_path):
        self.attempts.append({'url': url, 'headers': headers,
                              'transports': list(self.eio.transports),
                              'path': engineio_path})
        return self.plan.pop(0) if self.plan else self.default_outcome

    def _fail(self, out):
        msg = out[1] if isinstance(out, (tuple, list)) else \
            'Connection refused by the server'
        return self.engineio.exceptions.ConnectionError(msg)

    def _opened(self):
        eio = self.eio
        self.n_conn += 1
        eio.sid = 'eio-%d' % self.n_conn
        eio.upgrades = []
        eio.current_transport = eio.transports[0]
        eio.ws = _DummyWS(self.aio)
        eio.state = 'connected'

    def _do_connect(self, url, headers, engineio_path):
        out = self._outcome(url, headers, engineio_path)
        eio = self.eio
        if out != 'ok':
            eio._reset()
            raise self._fail(out)
        self._opened()
        try:
            eio._trigger_event('connect', run_async=False)
        except Exception as exc:
            eio._reset()
            raise self.engineio.exceptions.ConnectionError(
                'Connect handler failed: ' + str(exc))
        eio.write_loop_task = DummyTask()
        eio.read_loop_task = DummyTask()
        if self.on_engine_connected:
            self.on_engine_connected()

    async def _do_connect_async(self, url, headers, engineio_path):
        out = self._outcome(url, headers, engineio_path)
        eio = self.eio
        if out != 'ok':
            await eio._reset()
            raise self._fail(out)
        self._opened()
        try:
            await eio._trigger_event('connect', run_async=False)
        except Exception as exc:
            await eio._reset()
            raise self.engineio.exceptions.ConnectionError(
                'Connect handler failed: ' + str(exc))
        eio.write_loop_task = DummyTask()
        eio.read_loop_task = DummyTask()
        if self.on_engine_connected:
            self.on_engine_connected()

    # -- plumbing --------------------------------------------------------------
    def do(self, x):
        if inspect.isawaitable(x):
            if isinstance(x, BgHandle):
                x.run()
                return x.result
            return self.loop.run(x)
        return x

    def _start_bg(self, target, *args, **kwargs):
        hnd = BgHandle(self, target, args, kwargs)
        name = getattr(target, '__name__', '')
        self.started.append(name)
        if self.bg_mode == 'inline' and name != '_handle_reconnect':
            hnd.run()
        else:
            self.bg.append(hnd)
        return hnd

    def settle(self):
        while True:
            todo = [b for b in self.bg if not b.done and getattr(
                b.target, '__name__', '') != '_handle_reconnect']
            if not todo:
                break
            todo[0].run()
        self.bg = [b for b in self.bg if not b.done]

    def reconnect_tasks(self):
        return [b for b in self.bg if not b.done and getattr(
            b.target, '__name__', '') == '_handle_reconnect']

    # -- the scripted server's side -----------------------------------------------
    def deliver(self, data):
        """One engine.io MESSAGE from the server, through the real
        _receive_packet."""
        if self.eio.state != 'connected':
            return False
        pkt = self.eio_packet.Packet(self.eio_packet.MESSAGE, data)
        self.do(self.eio._receive_packet(pkt))
        if self.aio:
            self.loop.run_until_idle()
        return True

    def server_close(self):
        """Engine.IO CLOSE from the server."""
        if self.eio.state != 'connected':
            return
        self.do(self.eio._receive_packet(
            self.eio_packet.Packet(self.eio_packet.CLOSE)))
        if self.aio:
            self.loop.run_until_idle()

    def lose(self):
        """Transport loss: the tail of the real read loop."""
        eio = self.eio
        if eio.state == 'connected':
            if self.aio:
                async def tail():
                    # one task, like the read loop: no other task runs
                    # between the notification and the reset
                    await eio._trigger_event('disconnect',
                                             self.reason.TRANSPORT_ERROR,
                                             run_async=False)
                    await eio._reset()
                self.do(tail())
            else:
                eio._trigger_event('disconnect', self.reason.TRANSPORT_ERROR,
                                   run_async=False)
                eio._reset()
        if self.aio:
            self.loop.run_until_idle()

    def deliver_then_end(self, frames, how='close'):
        """MESSAGE packets followed, within the same read, by the end of the
        connection (a CLOSE packet, or a transport error): engine.io hands the
        messages to background tasks / threads and processes the end itself,
        so the end can be processed first."""
        eio = self.eio
        if eio.state != 'connected':
            return False
        P = self.eio_packet

        if self.aio:
            async def payload():
                for f in frames:
                    await eio._receive_packet(P.Packet(P.MESSAGE, f))
                if how == 'close':
                    await eio._receive_packet(P.Packet(P.CLOSE))
                else:
                    await eio._trigger_event('disconnect',
                                             self.reason.TRANSPORT_ERROR,
                                             run_async=False)
                    await eio._reset()
            self.do(payload())
            self.loop.run_until_idle()
        else:
            mode, self.bg_mode = self.bg_mode, 'queued'
            try:
                for f in frames:
                    eio._receive_packet(P.Packet(P.MESSAGE, f))
                if how == 'close':
                    eio._receive_packet(P.Packet(P.CLOSE))
                else:
                    eio._trigger_event('disconnect',
                                       self.reason.TRANSPORT_ERROR,
                                       run_async=False)
                    eio._reset()
            finally:
                self.bg_mode = mode
            self.settle()
        return True

    def take_outbox(self):
        out, self.outbox = self.outbox, []
        return out

    def take_msgs(self):
        return [d for t, d in self.take_outbox()
                if t == self.eio_packet.MESSAGE]

    def close(self):
        if self.own_loop and self.loop is not None:
            self.loop.shutdown()
            self.loop = None
