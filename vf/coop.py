"""Cooperative scheduler for real threads.

Each logical actor runs in a real threading.Thread, but exactly one runs at a
time: an actor calls yield_point(label) (it parks on its own semaphore after
handing the baton back); the scheduler then picks the next actor to run from
the case's choice list.  Schedules are therefore plain lists of small
integers: they replay exactly, and small spaces can be enumerated by DFS over
the choice tree.  This is pre-emption at the granularity of the instrumented
operations, not of bytecodes.
"""
import threading


class Deadlock(Exception):
    pass


class _Actor:
    def __init__(self, sched, name, fn):
        self.sched = sched
        self.name = name
        self.fn = fn
        self.go = threading.Semaphore(0)
        self.done = False
        self.exc = None
        self.result = None
        self.parked_on = None      # CoopEvent the actor waits for
        self.timeout_possible = False
        self.timed_out = False
        self.thread = threading.Thread(target=self._main, daemon=True)

    def _main(self):
        self.go.acquire()
        try:
            self.result = self.fn()
        except BaseException as e:      # recorded, judged by the check
            self.exc = e
        finally:
            self.done = True
            self.sched.back.release()


class Scheduler:
    def __init__(self, choices=()):
        self.choices = list(choices)
        self.pos = 0
        self.actors = []
        self.back = threading.Semaphore(0)
        self.current = None
        self.trace = []        # (actor name, label) at every resume
        self.branching = []    # number of options at every decision
        self.taken = []        # option index taken at every decision
        self.preemptions = 0
        self.local = threading.local()

    def spawn(self, name, fn):
        a = _Actor(self, name, fn)
        self.actors.append(a)
        a.thread.start()
        return a

    # ---- called from actor threads ------------------------------------
    def me(self):
        t = threading.current_thread()
        for a in self.actors:
            if a.thread is t:
                return a
        return None

    def yield_point(self, label=''):
        a = self.me()
        if a is None:
            return            # not an actor (set-up code): no scheduling
        a.label = label
        self.back.release()
        a.go.acquire()

    def park(self, event, timeout):
        """Block the calling actor until event is set, or - if a timeout
        was given - until the scheduler decides that the timeout fires."""
        a = self.me()
        if a is None:
            return event.flag
        a.parked_on = event
        a.timeout_possible = timeout is not None
        a.timed_out = False
        a.label = 'wait'
        self.back.release()
        a.go.acquire()
        a.parked_on = None
        return event.flag

    # ---- driver -----------------------------------------------------------
    def _options(self):
        opts = []
        for a in self.actors:
            if a.done:
                continue
            if a.parked_on is not None and not a.parked_on.flag:
                if a.timeout_possible:
                    opts.append((a, 'timeout'))
                continue
            opts.append((a, 'run'))
        return opts

    def run(self, max_steps=5000):
        steps = 0
        last = None
        while True:
            if all(a.done for a in self.actors):
                break
            opts = self._options()
            if not opts:
                raise Deadlock('no runnable actor: %r' % [
                    (a.name, getattr(a, 'label', '')) for a in self.actors
                    if not a.done])
            if self.pos < len(self.choices):
                k = self.choices[self.pos] % len(opts)
            else:
                k = 0
            # default (0) = keep running the actor that ran last, if it can
            if last is not None:
                for i, (a, how) in enumerate(opts):
                    if a is last and how == 'run':
                        opts.insert(0, opts.pop(i))
                        break
            self.branching.append(len(opts))
            self.taken.append(k)
            self.pos += 1
            a, how = opts[k]
            if last is not None and a is not last and not last.done and \
                    any(x is last and h == 'run' for x, h in opts):
                self.preemptions += 1
            if how == 'timeout':
                a.timed_out = True
                a.parked_on = None
            self.trace.append((a.name, getattr(a, 'label', 'start'), how))
            last = a
            a.go.release()
            self.back.acquire()
            steps += 1
            if steps > max_steps:
                raise Deadlock('schedule does not terminate')
        for a in self.actors:
            a.thread.join(5)


class CoopEvent:
    """threading.Event look-alike whose operations are yield points."""

    def __init__(self, sched):
        self.sched = sched
        self.flag = False

    def set(self):
        self.sched.yield_point('event.set')
        self.flag = True

    def clear(self):
        self.sched.yield_point('event.clear')
        self.flag = False

    def is_set(self):
        self.sched.yield_point('event.is_set')
        return self.flag

    def wait(self, timeout=None):
        self.sched.yield_point('event.wait')
        if self.flag:
            return True
        return self.sched.park(self, timeout)


class CoopList(list):
    """list whose append / pop / truthiness are yield points."""

    sched = None

    def append(self, x):
        self.sched.yield_point('list.append')
        list.append(self, x)

    def pop(self, *a):
        self.sched.yield_point('list.pop')
        return list.pop(self, *a)

    def __bool__(self):
        self.sched.yield_point('list.bool')
        return list.__len__(self) > 0

    def __len__(self):
        return list.__len__(self)


def explore(run_one, max_schedules=100000, max_preemptions=None):
    """Stateless DFS over the choice tree. run_one(choices) must execute one
    schedule and return the Scheduler (for branching/taken). Yields each
    scheduler after its run."""
    prefix = []
    n = 0
    while True:
        s = run_one(list(prefix))
        n += 1
        yield s
        if n >= max_schedules:
            return
        # next prefix: increment the deepest decision that has options left
        taken, br = list(s.taken), list(s.branching)
        i = len(taken) - 1
        while i >= 0:
            if taken[i] + 1 < br[i]:
                cand = taken[:i] + [taken[i] + 1]
                prefix = cand
                break
            i -= 1
        else:
            return


def wrap_yield(sched, obj, names, prefix='', tag=None, nested=False,
               atomic=()):
    """Make every *outermost* call of obj.<name> a yield point (on the
    instance): calls the object makes to itself while serving such a call are
    not accesses by the code under test and do not yield again."""
    depth = threading.local()
    for name in names:
        orig = getattr(obj, name, None)
        if orig is None:
            continue

        def mk(orig=orig, name=name):
            def wrapped(*a, **k):
                d = getattr(depth, 'n', 0)
                inside = getattr(depth, 'stack', ())
                # never yield inside a method that holds a real lock (the
                # next actor would block on it outside the scheduler)
                if (d == 0 or nested) and not any(x in atomic
                                                  for x in inside):
                    lab = prefix + name
                    if tag is not None:
                        lab += ':' + str(tag(name, a, k))
                    sched.yield_point(lab)
                depth.n = d + 1
                depth.stack = inside + (name,)
                try:
                    return orig(*a, **k)
                finally:
                    depth.n = d
                    depth.stack = inside
            return wrapped
        setattr(obj, name, mk())
