"""CLI: ./run Cnn [--tier quick|thorough] [--replay FILE]

Exit 0: property held on everything explored (KNOWN-FINDING lines allowed).
Exit 1: a violation, with a line  VIOLATION property=<id> replay=<path>.
Exit 2: harness error / vacuous run (never a VIOLATION line).
"""
import argparse
import importlib
import asyncio
import copy
import json
import multiprocessing
import os
import subprocess
import sys
import time
import traceback

from . import case as casemod
from . import core
from .core import Violation, HarnessError, VERIF_DIR

MAX_SAMPLES = 8
SAMPLE_MAX_CHARS = 4000


# --------------------------------------------------------------------------
# known findings

def load_findings(pid):
    path = os.path.join(VERIF_DIR, 'known_findings.json')
    if not os.path.exists(path):
        return []
    with open(path) as f:
        entries = json.load(f)
    return [e for e in entries if e.get('property') == pid]


# --------------------------------------------------------------------------
# evidence accumulator

class Acc:
    def __init__(self):
        self.evaluations = 0
        self.nontrivial = set()
        self.labels = {}
        self.samples = []
        self.kf_hits = {}
        self.excluded = 0
        self.inconclusive = False
        self.exhaustive_parts = {}
        self.engines = set()

    def record(self, case, labels):
        self.evaluations += 1
        if labels is None:
            return
        for k, v in labels.items():
            if k == 'nontrivial':
                continue
            if isinstance(v, bool):
                if v:
                    self.labels[k] = self.labels.get(k, 0) + 1
            elif isinstance(v, (str, int)):
                key = '%s=%s' % (k, v)
                self.labels[key] = self.labels.get(key, 0) + 1
        if labels.get('nontrivial'):
            d = casemod.digest(case)
            if d not in self.nontrivial:
                self.nontrivial.add(d)
                if len(self.samples) < MAX_SAMPLES:
                    s = casemod.dumps(case)
                    if len(s) <= SAMPLE_MAX_CHARS:
                        self.samples.append(json.loads(s))

    def merge(self, other):
        self.evaluations += other['evaluations']
        self.nontrivial |= other['nontrivial']
        for k, v in other['labels'].items():
            self.labels[k] = self.labels.get(k, 0) + v
        for s in other['samples']:
            if len(self.samples) < MAX_SAMPLES:
                self.samples.append(s)
        for k, v in other['kf_hits'].items():
            self.kf_hits[k] = self.kf_hits.get(k, 0) + v
        self.excluded += other.get('excluded', 0)
        self.inconclusive = self.inconclusive or other['inconclusive']
        self.engines |= set(other.get('engines', []))
        for k, v in other.get('exhaustive_parts', {}).items():
            self.exhaustive_parts[k] = v

    def export(self):
        return {'evaluations': self.evaluations,
                'nontrivial': self.nontrivial, 'labels': self.labels,
                'samples': self.samples, 'kf_hits': self.kf_hits,
                'excluded': self.excluded,
                'inconclusive': self.inconclusive,
                'engines': sorted(self.engines),
                'exhaustive_parts': self.exhaustive_parts}


# --------------------------------------------------------------------------
# one search shard (runs in a worker process)

def _load(pid, tolerate=False):
    """tolerate: let check_case step over listed known findings (it labels
    each hit 'kf:<key>') so that the search continues behind them."""
    core.bootstrap()
    mod = importlib.import_module('vf.props.' + pid.lower())
    mod.KNOWN = {e['key'] for e in load_findings(pid)
                 if e.get('status') == 'known'} if tolerate else set()
    return mod


def _guarded_check(mod, case, acc, known_keys):
    """Run check_case; known-finding signatures are counted and pass."""
    try:
        try:
            _seed_global_random(case)
            # (the code under test gets a private copy: a case that it
            # modifies in place must still replay)
            labels = mod.check_case(copy.deepcopy(case))
        except Violation:
            raise
        except core.Abort as a:
            raise Violation(a.kind, a.detail) from None
        except asyncio.CancelledError:
            # the harness never cancels a task while a case runs: an injected
            # cancellation of an application handler / callback left the
            # library call it was running under
            raise Violation('cancellation-escaped',
                            traceback.format_exc()[-1500:]) from None
        except Exception as e:
            v = core.as_violation(e)
            if v is None:
                raise
            raise v from None
    except Violation as v:
        sig = mod.classify(case, v)
        if sig in known_keys:
            acc.kf_hits[sig] = acc.kf_hits.get(sig, 0) + 1
            acc.record(case, None)
            return None
        raise
    for k in list(labels or ()):
        if k.startswith('kf:'):
            acc.kf_hits[k[3:]] = acc.kf_hits.get(k[3:], 0) + 1
            del labels[k]
    acc.record(case, labels)
    return labels


def _seed_global_random(case):
    """The library draws its reconnection jitter from the global `random`
    module: seed it from the case, so that search, shrinking and replay of
    one case are the same pure function of the case."""
    import random
    random.seed(int(casemod.digest(case)[:12], 16))


def _watchdog(deadline):
    """A shard that is still running long after its wall budget is a hung
    harness (e.g. an actor blocked on a real lock): end it as a harness
    error (exit 2) instead of hanging the check."""
    import signal

    def boom(signum, frame):
        raise HarnessError('shard still running %ds after its wall budget'
                           % 300)
    try:
        signal.signal(signal.SIGALRM, boom)
        signal.alarm(int(max(deadline - time.time(), 0)) + 300)
    except (ValueError, AttributeError):
        pass


def search_shard(args):
    pid, tier, seed, shard, nshards, deadline = args
    _watchdog(deadline)
    try:
        return _search_shard(pid, tier, seed, shard, nshards, deadline)
    except BaseException:
        return {'error': traceback.format_exc()}


def _search_shard(pid, tier, seed, shard, nshards, deadline):
    mod = _load(pid, tolerate=True)
    import hypothesis
    from hypothesis import HealthCheck, Phase, given, settings
    acc = Acc()
    known_keys = {e['key'] for e in load_findings(pid)
                  if e.get('status') == 'known'}
    failure = {'case': None, 'violation': None, 't0': None}
    shrink_cap = 90 if tier == 'quick' else 240

    def body(case):
        now = time.time()
        if failure['t0'] is not None and now - failure['t0'] > shrink_cap:
            return          # shrinking budget used up: stop accepting shrinks
        if failure['t0'] is None and now > deadline:
            acc.inconclusive = True
            return
        try:
            _guarded_check(mod, case, acc, known_keys)
        except Violation as v:
            if failure['t0'] is None:
                failure['t0'] = now
            failure['case'] = case
            failure['violation'] = (v.kind, str(v.detail)[:2000])
            raise

    # 1. exhaustive / enumerated parts (sharded round-robin)
    enum = getattr(mod, 'enumerate_cases', None)
    enum_sh = getattr(mod, 'enumerate_sharded', None)
    if enum is not None or enum_sh is not None:
        acc.engines.add('enumeration')
        n = 0
        complete = True
        it = enum_sh(tier, shard, nshards) if enum_sh is not None else (
            c for i, c in enumerate(enum(tier)) if i % nshards == shard)
        # enumeration may use at most 60% of the wall budget, so that the
        # generated search always runs too
        t_enum = time.time()
        enum_deadline = t_enum + 0.6 * max(deadline - t_enum, 0)
        for case in it:
            if time.time() > enum_deadline:
                acc.inconclusive = True
                complete = False
                break
            n += 1
            try:
                _guarded_check(mod, case, acc, known_keys)
            except Violation as v:
                return dict(acc.export(), failure=casemod.to_jsonable(case),
                            violation=(v.kind, str(v.detail)[:2000]))
        if getattr(mod, 'ENUM_TRUNCATED', False):
            complete = False
        acc.exhaustive_parts['enumerated_in_shard_%d' % shard] = \
            {'cases': n, 'complete': complete}

    # 2. generated search
    budget = mod.BUDGET[tier]
    n_examples = budget if isinstance(budget, int) else budget[0]
    if n_examples > 0:
        acc.engines.add('hypothesis')
        per = max(1, n_examples // nshards)
        phases = [Phase.generate, Phase.shrink]
        st = mod.strategy(tier)
        test = given(st)(body)
        test = settings(
            max_examples=per, database=None, deadline=None,
            derandomize=False, report_multiple_bugs=False,
            phases=phases, print_blob=False,
            suppress_health_check=list(HealthCheck))(test)
        test = hypothesis.seed(seed * 1000 + shard)(test)
        try:
            test()
        except Violation:
            pass
        except BaseException as e:
            if failure['case'] is None:
                raise
            # Flaky etc. after the shrink cap: keep the recorded failure
            sys.stderr.write('note: hypothesis ended with %s after a '
                             'recorded failure\n' % type(e).__name__)
    out = acc.export()
    if failure['case'] is not None:
        out['failure'] = casemod.to_jsonable(failure['case'])
        out['violation'] = failure['violation']
    return out


# --------------------------------------------------------------------------
# main

def write_replay(pid, case_jsonable):
    text = json.dumps(case_jsonable, sort_keys=True, indent=1)
    import hashlib
    h = hashlib.sha1(text.encode()).hexdigest()[:16]
    d = os.path.join(VERIF_DIR, 'replays', pid)
    os.makedirs(d, exist_ok=True)
    path = os.path.join(d, h + '.json')
    with open(path, 'w') as f:
        f.write(text)
    return os.path.relpath(path, VERIF_DIR)


def replay_file(pid, path, quiet=False):
    """Run check_case on a replay file. Returns (violated, sig, message)."""
    mod = _load(pid)
    with open(path) as f:
        case = casemod.from_jsonable(json.load(f))
    try:
        try:
            _seed_global_random(case)
            mod.check_case(case)
        except Violation:
            raise
        except core.Abort as a:
            raise Violation(a.kind, a.detail) from None
        except asyncio.CancelledError:
            # the harness never cancels a task while a case runs: an injected
            # cancellation of an application handler / callback left the
            # library call it was running under
            raise Violation('cancellation-escaped',
                            traceback.format_exc()[-1500:]) from None
        except Exception as e:
            v = core.as_violation(e)
            if v is None:
                raise
            raise v from None
    except Violation as v:
        return True, mod.classify(case, v), str(v)[:1500]
    return False, None, ''


def fresh_replay(pid, relpath):
    """Re-run a replay file in a fresh interpreter: 1 violates, 0 passes."""
    env = dict(os.environ)
    env['PYTHONHASHSEED'] = '0'
    p = subprocess.run(
        [sys.executable, '-m', 'vf.runner', pid, '--replay', relpath,
         '--raw'], cwd=VERIF_DIR, env=env, capture_output=True, text=True,
        timeout=1800)
    return p.returncode, p.stdout + p.stderr


def write_evidence(pid, tier, seed, mod, acc, wall, violations, notes):
    ex = getattr(mod, 'EXHAUSTIVE', False)
    cov = {
        'evaluations': acc.evaluations,
        'distinct_nontrivial': len(acc.nontrivial),
        'rule': mod.RULE,
        'samples': acc.samples,
        'labels': dict(sorted(acc.labels.items())),
        'known_finding_hits': acc.kf_hits,
        'excluded_by_construction': acc.excluded,
        'engines': sorted(acc.engines),
        'inconclusive': acc.inconclusive,
    }
    if acc.exhaustive_parts:
        parts = acc.exhaustive_parts
        cov['enumerated_cases'] = sum(p['cases'] for p in parts.values())
        complete = all(p['complete'] for p in parts.values())
        if ex and complete:
            cov['exhaustive'] = True
            cov['exhaustive_scope'] = getattr(mod, 'EXHAUSTIVE_SCOPE', '')
    if notes:
        cov['notes'] = notes
    ev = {'property_id': pid, 'tier': tier, 'seed': seed,
          'level': 'exploration', 'coverage': cov,
          'assumptions': list(getattr(mod, 'ASSUMPTIONS', [])),
          'wall_s': round(wall, 3), 'violations': violations}
    evdir = os.path.join(VERIF_DIR, 'evidence')
    if os.environ.get('VERIF_REPO_SRC'):
        # sensitivity runs against a scratch copy must not touch the
        # evidence of the real tree
        evdir = os.path.join('/var/tmp', 'vf-scratch-evidence')
    os.makedirs(evdir, exist_ok=True)
    path = os.path.join(evdir, pid + '.json')
    with open(path, 'w') as f:
        json.dump(ev, f, indent=1, sort_keys=True)
    try:
        import jsonschema
        with open('/root/.vp/EVIDENCE.schema.json') as f:
            schema = json.load(f)
        jsonschema.validate(ev, schema)
    except ImportError:
        pass
    except FileNotFoundError:
        pass
    return path


def main(argv=None):
    ap = argparse.ArgumentParser()
    ap.add_argument('pid')
    ap.add_argument('--tier', default=os.environ.get('VERIF_TIER', 'quick'),
                    choices=['quick', 'thorough'])
    ap.add_argument('--replay')
    ap.add_argument('--raw', action='store_true',
                    help='with --replay: ignore the known-findings file')
    ap.add_argument('--jobs', type=int,
                    default=int(os.environ.get('VERIF_JOBS', '0')))
    a = ap.parse_args(argv)
    pid = a.pid.upper()
    try:
        seed = int(os.environ.get('VERIF_SEED', '1') or '1')
    except ValueError:
        seed = 1
    try:
        return _main(pid, a, seed)
    except HarnessError as e:
        sys.stderr.write('HARNESS ERROR: %s\n' % e)
        return 2
    except Exception:
        sys.stderr.write('HARNESS ERROR:\n' + traceback.format_exc())
        return 2


def _main(pid, a, seed):
    t0 = time.time()
    mod = _load(pid)
    findings = load_findings(pid)

    if a.replay:
        violated, sig, msg = replay_file(pid, a.replay)
        if violated:
            known = {e['key'] for e in findings if e.get('status') == 'known'}
            if sig in known and not a.raw:
                print('KNOWN-FINDING: property=%s %s' % (pid, sig))
                return 0
            print('signature=%s' % sig)
            print(msg)
            print('VIOLATION property=%s replay=%s' % (pid, a.replay))
            return 1
        print('replay passed: %s' % a.replay)
        return 0

    notes = []
    # 1. committed witnesses: known ones must still fail with the same
    #    signature (else stale), fixed ones must pass (else regression).
    for e in findings:
        w = e.get('witness')
        if not w:
            continue
        wpath = os.path.join(VERIF_DIR, w)
        violated, sig, msg = replay_file(pid, wpath)
        if e.get('status') == 'known':
            if violated and sig == e['key']:
                print('KNOWN-FINDING: property=%s %s' % (pid, e['what']))
            elif violated:
                print(msg)
                print('VIOLATION property=%s replay=%s' % (pid, w))
                write_evidence_min(pid, a.tier, seed, mod, t0, 1)
                return 1
            else:
                sys.stderr.write('stale known finding (no longer fails): '
                                 '%s\n' % e['key'])
                notes.append('stale known finding: ' + e['key'])
        elif e.get('status') == 'fixed':
            if violated and sig in {f['key'] for f in findings
                                    if f.get('status') == 'known'}:
                # (the same history also shows a recorded known finding,
                # which is reported by its own entry)
                continue
            if violated:
                print(msg)
                print('VIOLATION property=%s replay=%s' % (pid, w))
                write_evidence_min(pid, a.tier, seed, mod, t0, 1)
                return 1

    # 2. search
    jobs = a.jobs or (4 if a.tier == 'quick' else 16)
    jobs = max(1, min(jobs, os.cpu_count() or 1))
    cap = getattr(mod, 'WALL_CAP', {'quick': 240, 'thorough': 3000})[a.tier]
    deadline = time.time() + cap
    shard_args = [(pid, a.tier, seed, k, jobs, deadline) for k in range(jobs)]
    if jobs == 1:
        results = [search_shard(shard_args[0])]
    else:
        ctx = multiprocessing.get_context('fork')
        with ctx.Pool(jobs) as pool:
            results = pool.map(search_shard, shard_args, chunksize=1)
    acc = Acc()
    failures = []
    for r in results:
        if 'error' in r:
            sys.stderr.write('HARNESS ERROR in shard:\n' + r['error'])
            return 2
        r['nontrivial'] = set(r['nontrivial'])
        acc.merge(r)
        if r.get('failure') is not None:
            failures.append((r['failure'], r['violation']))

    # 3. extra engines in the parent (atheris campaigns etc.)
    extra = getattr(mod, 'extra_engines', None)
    if extra is not None and not failures:
        for fcase in extra(a.tier, seed, acc, deadline):
            failures.append((casemod.to_jsonable(fcase), ('extra', '')))

    violations = 0
    rc = 0
    for fcase, viol in failures:
        rel = write_replay(pid, fcase)
        code, out = fresh_replay(pid, rel)
        if code == 1:
            violations += 1
            sys.stdout.write(out if out.endswith('\n') else out + '\n')
            rc = 1
            break       # one VIOLATION line per run is enough
        else:
            sys.stderr.write(
                'HARNESS FLAKE: case %s failed in the search (%s) but not in '
                'a fresh process (exit %s)\n%s\n' % (rel, viol, code, out))
            rc = 2
            break

    wall = time.time() - t0
    try:
        write_evidence(pid, a.tier, seed, mod, acc, wall, violations, notes)
    except Exception as e:
        sys.stderr.write('evidence does not validate: %s\n' % e)
        return rc or 2
    if rc == 0:
        floor = getattr(mod, 'FLOOR', {'quick': 20, 'thorough': 100})[a.tier]
        if len(acc.nontrivial) < floor:
            sys.stderr.write('VACUOUS: only %d distinct non-trivial cases '
                             '(floor %d)\n' % (len(acc.nontrivial), floor))
            return 2
        print('%s %s: ok, %d evaluations, %d distinct non-trivial, %.1fs%s'
              % (pid, a.tier, acc.evaluations, len(acc.nontrivial), wall,
                 ' (inconclusive: wall cap hit)' if acc.inconclusive else ''))
    return rc


def write_evidence_min(pid, tier, seed, mod, t0, violations):
    acc = Acc()
    try:
        write_evidence(pid, tier, seed, mod, acc, time.time() - t0,
                       violations, ['ended at a committed witness'])
    except Exception:
        pass


if __name__ == '__main__':
    sys.exit(main())
