"""Real client <-> real server, linked through the real engine.io packet /
payload codec (no transports)."""
from . import core
from .detloop import DetLoop
from .eio_client import ClientHarness
from .eio_server import ServerHarness


class Link:
    def __init__(self, aio=False, serializer='default', framing='binary',
                 server_kwargs=None, client_kwargs=None, batch=False):
        core.bootstrap()
        self.aio = aio
        self.loop = DetLoop() if aio else None
        skw = dict(server_kwargs or {})
        ckw = dict(client_kwargs or {})
        if serializer != 'default':
            skw['serializer'] = serializer
            ckw['serializer'] = serializer
        ckw.setdefault('reconnection', False)
        self.sh = ServerHarness(aio=aio, loop=self.loop,
                                bg='collect' if aio else 'inline', **skw)
        self.ch = ClientHarness(aio=aio, loop=self.loop, **ckw)
        self.framing = framing
        self.eio_sid = None
        self.ch.on_engine_connected = self._opened
        from engineio import packet as P, payload as PL
        self.P, self.PL = P, PL
        self.frames_c2s = 0
        self.frames_s2c = 0
        self.pumping = False
        # batch: the packets that are in flight are handed to the receiver
        # back to back (one polling payload / frames already buffered) and
        # its background tasks only run afterwards
        self.batch = batch
        self.q_c2s = []     # frames in flight, in order
        self.q_s2c = []

    def _opened(self):
        # called from inside the client's connect(): the server side of the
        # transport is opened by the next pump (never from inside a task)
        self.need_open = True

    def _transfer(self, pkts):
        """(type, data) packets through the wire encoding; returns decoded
        engine.io Packet objects."""
        P, PL = self.P, self.PL
        objs = [P.Packet(t, d) for t, d in pkts]
        out = []
        if self.framing == 'b64':
            for i in range(0, len(objs), 16):
                enc = PL.Payload(packets=objs[i:i + 16]).encode()
                out.extend(PL.Payload(encoded_payload=enc).packets)
        else:
            for o in objs:
                out.append(P.Packet(encoded_packet=o.encode(b64=False)))
        return out

    def pump(self, *_, max_c2s=None, max_s2c=None):
        """Move frames both ways until nothing is in flight.  With max_c2s /
        max_s2c at most that many frames are delivered in that direction
        during this call; the others stay in flight (in order) and are
        delivered by a later pump."""
        if self.pumping:
            return
        self.pumping = True
        left = {'c2s': max_c2s, 's2c': max_s2c}

        def allowed(d):
            if left[d] is None:
                return True
            if left[d] > 0:
                left[d] -= 1
                return True
            return False
        try:
            if getattr(self, 'need_open', False):
                self.need_open = False
                self.eio_sid = self.sh.open()
            for _ in range(1000):
                moved = False
                out = self.ch.take_outbox()
                if out and self.eio_sid is not None:
                    self.q_c2s.extend(self._transfer(out))
                while self.q_c2s and self.eio_sid is not None:
                    s = self.sh.eio.sockets.get(self.eio_sid)
                    if s is None or s.closed:
                        del self.q_c2s[:]
                        break
                    if not allowed('c2s'):
                        break
                    p = self.q_c2s.pop(0)
                    moved = True
                    self.frames_c2s += 1
                    self.sh.do(s.receive(p))
                    if not self.batch:
                        self.sh.settle()
                self.sh.settle()
                if self.aio:
                    self.loop.run_until_idle()
                    self.sh.settle()
                back = self.sh.drain(self.eio_sid) if self.eio_sid else []
                if back:
                    self.q_s2c.extend(self._transfer(back))
                while self.q_s2c:
                    if self.ch.eio.state != 'connected':
                        del self.q_s2c[:]
                        break
                    if not allowed('s2c'):
                        break
                    p = self.q_s2c.pop(0)
                    moved = True
                    self.frames_s2c += 1
                    if self.batch and self.aio:
                        self.loop.spawn(self.ch.eio._receive_packet(p))
                        continue
                    self.ch.do(self.ch.eio._receive_packet(p))
                    if self.aio:
                        self.loop.run_until_idle()
                if self.aio:
                    self.loop.run_until_idle()
                if not moved and not self.ch.outbox:
                    return
            raise core.HarnessError('link never becomes quiet')
        finally:
            self.pumping = False

    def run_client(self, make_coro_or_call, max_c2s=None, max_s2c=None):
        """Run a client/server API call to completion while pumping (with
        max_c2s / max_s2c = 0 the frames of that direction stay in flight
        until the call has returned, e.g. timed out)."""
        lim = dict(max_c2s=max_c2s, max_s2c=max_s2c)
        held = max_c2s is not None or max_s2c is not None
        if not self.aio:
            self.ch.on_wait = lambda *a: self.pump(**lim)
            self.sh.on_wait = lambda *a: self.pump(**lim)
            try:
                r = make_coro_or_call()
            finally:
                self.ch.on_wait = None
                self.sh.on_wait = None
                if not held:
                    self.pump()
            return r
        task = self.loop.spawn(make_coro_or_call())
        for _ in range(200):
            self.loop.run_until_idle()
            self.pump(**lim)
            self.loop.run_until_idle()
            if task.done():
                if not held:
                    self.pump()
                return task.result()
            if not self.ch.outbox and not self.loop._ready:
                # nothing in flight: only a timer can finish the call
                if not self.loop.advance():
                    break
        task.cancel()
        self.loop.run_until_idle()
        raise core.HarnessError('call never finished')

    def close(self):
        if self.loop is not None:
            self.loop.shutdown()
            self.loop = None
