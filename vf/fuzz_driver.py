"""Runs a coverage-guided atheris campaign (vf.fuzz) in a subprocess and
folds its counters into the evidence accumulator."""
import json
import os
import shutil
import subprocess
import sys
import tempfile
import time

from . import case as casemod
from .core import VERIF_DIR


def campaign(pid, runs, seed, max_time, acc, shards=4):
    """Yields failing cases (already decoded). Shards run in parallel with
    different -seed values and their own corpus directories."""
    try:
        import atheris  # noqa: F401
    except ImportError:
        acc.labels['atheris_unavailable'] = 1
        return
    base = tempfile.mkdtemp(prefix='vf-fuzz-', dir='/var/tmp')
    procs = []
    env = dict(os.environ)
    env['PYTHONHASHSEED'] = '0'
    env['PYTHONPATH'] = VERIF_DIR + os.pathsep + os.path.join(
        VERIF_DIR, '.deps') + os.pathsep + env.get('PYTHONPATH', '')
    try:
        for k in range(shards):
            out = os.path.join(base, 'shard%d' % k)
            procs.append((out, subprocess.Popen(
                [sys.executable, '-m', 'vf.fuzz', pid, str(runs),
                 str(seed * 100 + k + 1), out, str(int(max_time))],
                cwd=VERIF_DIR, env=env, stdout=subprocess.DEVNULL,
                stderr=subprocess.DEVNULL)))
        t_end = time.time() + max_time + 120
        for out, p in procs:
            try:
                p.wait(timeout=max(5, t_end - time.time()))
            except subprocess.TimeoutExpired:
                p.kill()
        acc.engines.add('atheris')
        for out, p in procs:
            st = os.path.join(out, 'stats.json')
            if os.path.exists(st):
                with open(st) as f:
                    s = json.load(f)
                acc.evaluations += s['executions']
                acc.nontrivial |= set(s['nontrivial'])
                acc.labels['atheris_executions'] = acc.labels.get(
                    'atheris_executions', 0) + s['executions']
            fl = os.path.join(out, 'failure.json')
            if os.path.exists(fl):
                with open(fl) as f:
                    yield casemod.from_jsonable(json.load(f)['case'])
    finally:
        shutil.rmtree(base, ignore_errors=True)
