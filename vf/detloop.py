"""Deterministic virtual-time asyncio loop driven from synchronous harness
code.

* time() is virtual and only moves when the harness calls advance();
* callbacks run in asyncio's own FIFO order (the library is entitled to it);
* the harness runs the loop "until idle" (no ready callbacks), then decides
  what external thing happens next: release a gate, feed a packet, start an
  API call, or advance time to the next timer.  A task that can make no
  progress and has nothing to wait for is reported as Deadlock rather than
  hanging the check.

Relies on CPython 3.12 BaseEventLoop internals (_ready, _scheduled,
_run_once); the interpreter is pinned in this image.
"""
import asyncio
import inspect
import sys
import threading
from asyncio import events


class Deadlock(Exception):
    pass


class _NullSelector:
    """No I/O ever happens in a check; select() must never block."""

    def __init__(self):
        self._map = {}

    def register(self, fileobj, ev, data=None):
        self._map[fileobj] = (ev, data)

    def unregister(self, fileobj):
        self._map.pop(fileobj, None)

    def modify(self, fileobj, ev, data=None):
        self._map[fileobj] = (ev, data)

    def select(self, timeout=None):
        if timeout is None:
            raise Deadlock('event loop would block for ever')
        return []

    def close(self):
        self._map.clear()

    def get_map(self):
        return self._map

    def get_key(self, fileobj):
        raise KeyError(fileobj)


class DetLoop(asyncio.SelectorEventLoop):
    def __init__(self):
        super().__init__(selector=_NullSelector())
        self._vt = 1000.0
        self._agen_hooks = []
        # exceptions of fire-and-forget tasks are observed by the harness
        # where they matter; keep asyncio from printing them
        self.set_exception_handler(lambda loop, ctx: None)

    def time(self):
        return self._vt

    # -- driving -----------------------------------------------------------
    def _enter(self):
        self._thread_id = threading.get_ident()
        events._set_running_loop(self)
        # like run_forever(): abandoned async generators are finalised by
        # an aclose() task scheduled on the loop, not synchronously
        self._agen_hooks.append(sys.get_asyncgen_hooks())
        sys.set_asyncgen_hooks(firstiter=self._asyncgen_firstiter_hook,
                               finalizer=self._asyncgen_finalizer_hook)

    def _leave(self):
        self._thread_id = None
        events._set_running_loop(None)
        if self._agen_hooks:
            sys.set_asyncgen_hooks(*self._agen_hooks.pop())

    def run_until_idle(self, max_steps=200000):
        self._enter()
        try:
            n = 0
            while self._ready:
                self._run_once()
                n += 1
                if n > max_steps:
                    raise Deadlock('livelock: loop never becomes idle')
        finally:
            self._leave()

    def step(self):
        """One iteration of the loop: the callbacks that are ready now."""
        if not self._ready:
            return False
        self._enter()
        try:
            self._run_once()
        finally:
            self._leave()
        return True

    def next_timer(self):
        whens = [h._when for h in self._scheduled if not h._cancelled]
        return min(whens) if whens else None

    def advance(self, to=None):
        """Move virtual time to the next pending timer (or to `to`) and run
        until idle. Returns False if there was no timer."""
        w = self.next_timer()
        if to is not None:
            w = to if w is None else min(w, to)
        if w is None:
            return False
        if w > self._vt:
            self._vt = w
        self._enter()
        try:
            self._run_once()
        finally:
            self._leave()
        self.run_until_idle()
        return True

    def spawn(self, coro):
        self._enter()
        try:
            return self.create_task(coro)
        finally:
            self._leave()

    def run(self, awaitable, allow_time=True):
        """Run to completion, advancing virtual time when only timers are
        left. Deadlock if it can never finish."""
        if not inspect.isawaitable(awaitable):
            return awaitable
        if inspect.iscoroutine(awaitable):
            t = self.spawn(awaitable)
        else:
            self._enter()
            try:
                t = asyncio.ensure_future(awaitable, loop=self)
            finally:
                self._leave()
        while True:
            self.run_until_idle()
            if t.done():
                return t.result()
            if not allow_time or not self.advance():
                t.cancel()
                self.run_until_idle()
                raise Deadlock('task cannot finish: %r' % (t,))

    def shutdown(self):
        try:
            self._enter()
            try:
                pending = [t for t in asyncio.all_tasks(self) if not t.done()]
                for t in pending:
                    t.cancel()
            finally:
                self._leave()
            self.run_until_idle()
        finally:
            self.close()


class Gate:
    """A suspension point the harness releases explicitly."""

    def __init__(self, loop, label):
        self.label = label
        self.fut = loop.create_future()

    def release(self, exc=None):
        if not self.fut.done():
            if exc is None:
                self.fut.set_result(None)
            else:
                self.fut.set_exception(exc)
