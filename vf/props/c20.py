"""C20 Threaded server: concurrent terminations of one client are safe."""
import itertools

from hypothesis import strategies as st

from .. import coop
from .. import wire
from ..core import Violation
from ..world import World

PID = 'C20'
KNOWN = set()
KF_RACE = 'check-then-mark-race-in-disconnect'
EXHAUSTIVE = True
EXHAUSTIVE_SCOPE = ('every interleaving (pre-emption at every access the '
                    'server makes to the client manager and to the transport '
                    'layer, and at handler entry) of every pair of '
                    'terminating actions {server.disconnect(), client '
                    'DISCONNECT, transport loss, DISCONNECT of the other '
                    'namespace} x {one / two namespaces} x {bystander client '
                    'or not}')
RULE = ('Real threads under a cooperative scheduler that owns the schedule: '
        'the actors are the terminating actions above, yield points are '
        'placed on every client-manager method the server calls, on '
        'eio.send / send_packet and at disconnect-handler entry. Pairs are '
        'enumerated exhaustively by DFS over the choice tree; triples, and '
        'pairs at a finer granularity (yield points also at the calls the '
        'manager makes to itself, and at the real engine.io socket\'s '
        'send(), which raises for a connection closed meanwhile), and pairs '
        'with a scheduling point at every access to the shared table of '
        'pending disconnects, are explored with Hypothesis-generated '
        'choice lists. Oracle: the '
        'disconnect handler ran exactly once for the victim, no exception '
        'escaped an actor or was contained by engine.io, the victim left no '
        'trace (rooms, pending_disconnect, callbacks), the bystander and the '
        "victim's other namespace are untouched. Non-trivial: a schedule "
        'with at least one switch between one actor\'s connected-check and '
        'its mark.'
        " A further sampled family disconnects the victim's neighbour on the same namespace concurrently (the bookkeeping of a namespace is shared by its clients); sampled schedules have choice lists of a minimum length.")
ASSUMPTIONS = [
    'pre-emption at the granularity of instrumented operations (manager '
    'methods, transport sends, accesses to the table of pending '
    'disconnects), not of bytecodes',
    'the threading async mode (no eventlet/gevent)',
]
BUDGET = {'quick': 4000, 'thorough': 80000}
FLOOR = {'quick': 100, 'thorough': 2000}

ACTORS = ['sdisc', 'cdisc', 'lose', 'odisc']
MGR_METHODS = ['is_connected', 'can_disconnect', 'pre_disconnect',
               'disconnect', 'sid_from_eio_sid', 'eio_sid_from_sid',
               'get_namespaces', 'basic_disconnect', 'basic_leave_room',
               'get_rooms']


def _configs():
    for pair in itertools.combinations(ACTORS, 2):
        for two_ns in (False, True):
            if 'odisc' in pair and not two_ns:
                continue
            for by in (False, True):
                yield {'actors': list(pair), 'two_ns': two_ns,
                       'bystander': by}
    # an action racing with itself (two threads calling disconnect())
    for two_ns in (False, True):
        yield {'actors': ['sdisc', 'sdisc'], 'two_ns': two_ns,
               'bystander': True}


_CACHE = {}


def enumerate_sharded(tier, shard, nshards):
    """Exhaustive DFS per configuration; configurations are dealt out to the
    shards. Each schedule is executed once: the verdict is cached for the
    check_case call that follows immediately."""
    cfgs = list(_configs())
    if tier == 'quick':
        # quick tier: the configurations with a bystander (the victim's
        # namespace survives) - the others are enumerated in the thorough tier
        cfgs = [c for c in cfgs if c['bystander']]
    for i, cfg in enumerate(cfgs):
        if i % nshards != shard:
            continue

        def run_one(choices, cfg=cfg):
            case = dict(cfg, choices=choices)
            s, o = _execute(case)
            case['choices'] = list(s.taken)
            try:
                r = _judge(case, s, o)
            except Violation as v:
                r = v
            _CACHE.clear()
            _CACHE[_key(case)] = r
            run_one.case = case
            return s
        for s in coop.explore(run_one, max_schedules=200000):
            yield run_one.case


def _key(case):
    return (tuple(case['actors']), case['two_ns'], case['bystander'],
            case.get('fine'), tuple(case['choices']))


def strategy(tier):
    acts = st.lists(st.sampled_from(ACTORS), min_size=3, max_size=3)
    triples = st.fixed_dictionaries({
        'actors': acts, 'two_ns': st.just(True),
        'bystander': st.booleans(),
        'choices': st.lists(st.integers(0, 3), min_size=15, max_size=40)})
    fine = st.fixed_dictionaries({
        'actors': st.lists(st.sampled_from(ACTORS), min_size=2, max_size=2),
        'two_ns': st.booleans(), 'bystander': st.booleans(),
        'fine': st.just(True),
        'choices': st.lists(st.sampled_from([0, 0, 0, 1, 1, 2]),
                            min_size=25, max_size=60)}).filter(
        lambda c: c['two_ns'] or 'odisc' not in c['actors'])
    # pairs at the granularity of the accesses to the shared table of
    # pending disconnects (inside one manager method)
    table = st.fixed_dictionaries({
        'actors': st.lists(st.sampled_from(ACTORS), min_size=2, max_size=2),
        'two_ns': st.booleans(), 'bystander': st.booleans(),
        'fine': st.just('dict'),
        'choices': st.lists(st.sampled_from([0, 0, 0, 1, 1, 2]),
                            min_size=30, max_size=80)}).filter(
        lambda c: c['two_ns'] or 'odisc' not in c['actors'])
    # the victim's neighbour on the same namespace (another transport) is
    # disconnected by the application at the same time: the bookkeeping of
    # a namespace is shared by its clients
    neighbour = st.fixed_dictionaries({
        'actors': st.lists(st.sampled_from(['sdisc', 'cdisc', 'lose']),
                           min_size=2, max_size=2).map(
                               lambda l: ['bydisc'] + l),
        'two_ns': st.booleans(), 'bystander': st.just(True),
        'fine': st.sampled_from([True, True, 'dict']),
        # (long lists: once the choices are used up the scheduler always
        # runs the first runnable thread, which explores nothing)
        'choices': st.lists(st.sampled_from([0, 0, 0, 1, 1, 2]),
                            min_size=40, max_size=80)})
    return st.one_of(triples, fine, fine, table, neighbour, neighbour)


def _yielding_pending_table(sched, m):
    """Every access to the table of pending disconnects is a scheduling
    point (the table is shared by all threads and, per namespace, by all
    clients), also inside the regions that the manager's lock protects."""
    import threading

    class _Flag:
        def __init__(self):
            self.flag = False

    class OwnLock:
        """The manager's lock, in terms of the scheduler: an actor that finds
        it taken parks until it is released, so the holder may be pre-empted
        inside the locked region like anywhere else."""
        def __init__(self):
            self.owner = None
            self.waiters = []

        def acquire(self, blocking=True, timeout=-1):
            while self.owner is not None:
                if not blocking or sched.me() is None:
                    return False
                ev = _Flag()
                self.waiters.append(ev)
                sched.park(ev, None)
            self.owner = threading.get_ident()
            return True

        def release(self):
            self.owner = None
            for ev in self.waiters:
                ev.flag = True
            del self.waiters[:]

        def locked(self):
            return self.owner is not None

        def __enter__(self):
            self.acquire()
            return self

        def __exit__(self, *a):
            self.release()

    lock = OwnLock()

    class Table(dict):
        def _y(self, what):
            sched.yield_point('pending.' + what)

        def __contains__(self, k):
            self._y('in')
            return dict.__contains__(self, k)

        def __getitem__(self, k):
            self._y('get')
            return dict.__getitem__(self, k)

        def __setitem__(self, k, v):
            self._y('set')
            dict.__setitem__(self, k, v)

        def __delitem__(self, k):
            self._y('del')
            dict.__delitem__(self, k)

        def get(self, k, d=None):
            self._y('get')
            return dict.get(self, k, d)

        def pop(self, k, *d):
            self._y('pop')
            return dict.pop(self, k, *d)

        def setdefault(self, k, d=None):
            self._y('setdefault')
            return dict.setdefault(self, k, d)
    if hasattr(m, '_disconnect_lock'):
        m._disconnect_lock = lock
    m.pending_disconnect = Table(m.pending_disconnect)


def _execute(case):
    """Runs one schedule; returns (scheduler, observation dict)."""
    w = World(aio=False, namespaces=['/', '/x'])
    sio = w.sio
    log = []
    sched = coop.Scheduler(case['choices'])

    def on_disconnect(ns):
        def h(sid, reason):
            sched.yield_point('handler')
            log.append((ns, sid, reason))
        return h
    for ns in ('/', '/x'):
        sio.on('connect', lambda sid, environ, auth=None: None, namespace=ns)
        sio.on('disconnect', on_disconnect(ns), namespace=ns)
    t = w.open()
    ci, _ = w.connect(t, '/')
    victim = w.clients[ci]
    other = None
    if case['two_ns']:
        co, _ = w.connect(t, '/x')
        other = w.clients[co]
    by = None
    if case['bystander']:
        tb = w.open()
        cb, _ = w.connect(tb, '/')
        by = w.clients[cb]
        w.do(sio.enter_room(by['sid'], 'rb'))
    w.recv_all()
    eio_sid = w.t[t]
    sock = w.h.eio.sockets[eio_sid]
    def ns_tag(name, a, k):
        # the namespace argument of the manager call
        if 'namespace' in k:
            return k['namespace']
        pos = {'is_connected': 1, 'can_disconnect': 1, 'pre_disconnect': 1,
               'disconnect': 1, 'sid_from_eio_sid': 1, 'eio_sid_from_sid': 1,
               'basic_disconnect': 1, 'get_rooms': 1}.get(name)
        return a[pos] if pos is not None and len(a) > pos else ''
    # fine mode: also the calls the manager makes to itself (basic_disconnect
    # -> basic_leave_room ...) are yield points; too many schedules to
    # enumerate, so this granularity is only sampled
    coop.wrap_yield(sched, sio.manager, MGR_METHODS, 'mgr.', tag=ns_tag,
                    nested=case.get('fine') is True,
                    atomic=('pre_disconnect',))
    if case.get('fine') == 'dict':
        _yielding_pending_table(sched, sio.manager)
    coop.wrap_yield(sched, sio.eio, ['send', 'send_packet'], 'eio.')
    if case.get('fine'):
        # ... and the transport's own send, which engine.io reaches after it
        # has looked the connection up: it raises if the connection was
        # closed in between
        coop.wrap_yield(sched, sock, ['send'], 'sock.')
    # (send -> send_packet is one access: only the outermost call yields)
    from engineio import packet as ep

    def act(name):
        if name == 'sdisc':
            return lambda: sio.disconnect(victim['sid'], namespace='/')
        if name == 'cdisc':
            return lambda: sock.receive(ep.Packet(ep.MESSAGE, '1'))
        if name == 'odisc':
            return lambda: sock.receive(ep.Packet(ep.MESSAGE, '1/x,'))
        if name == 'bydisc':
            return lambda: sio.disconnect(by['sid'], namespace='/')

        def lose():
            sock.close(wait=False, abort=True,
                       reason=w.h.reason.TRANSPORT_ERROR)
        return lose
    actors = [sched.spawn('%s#%d' % (n, i), act(n))
              for i, n in enumerate(case['actors'])]
    deadlock = None
    try:
        sched.run()
    except coop.Deadlock as e:
        deadlock = e
    obs = {'log': log, 'actors': actors, 'deadlock': deadlock, 'w': w,
           'victim': victim, 'other': other, 'by': by, 'sched': sched,
           'eio_sid': eio_sid}
    return sched, obs


def check_case(case):
    r = _CACHE.pop(_key(case), None)
    if r is not None:
        if isinstance(r, Violation):
            raise r
        return r
    sched, o = _execute(case)
    return _judge(case, sched, o)


def _judge(case, sched, o):
    w, sio = o['w'], o['w'].sio
    victim, other, by = o['victim'], o['other'], o['by']
    names = case['actors']
    what = 'actors %r schedule %r' % (names, [
        (a, l) for a, l, h in sched.trace])
    labels = {'actors': '+'.join(sorted(names)), 'two_ns': case['two_ns'],
              'bystander': case['bystander'], 'nontrivial': False}
    races = _races(sched)
    if races:
        labels['nontrivial'] = True
    if o['deadlock'] is not None:
        raise Violation('deadlock', '%s: %s' % (what, o['deadlock']))
    kills = [n for n in names if n in ('sdisc', 'cdisc', 'lose')]
    v_inv = [e for e in o['log'] if e[1] == victim['sid']]
    problems = []
    for a in o['actors']:
        if a.exc is not None:
            problems.append(('thread-raised', '%s raised %r' % (a.name,
                                                                a.exc)))
    for msg, exc in w.h.swallowed:
        problems.append(('thread-raised', 'engine.io contained %r (%s)'
                         % (exc, msg)))
    if kills and len(v_inv) != 1:
        problems.append(('disconnect-handler-%s' % (
            'twice' if len(v_inv) > 1 else 'missing'),
            'handler ran %d times for the victim' % len(v_inv)))
    if not kills and v_inv:
        problems.append(('disconnect-handler-unexpected', repr(v_inv)))
    m = sio.manager
    if kills:
        if m.is_connected(victim['sid'], '/') or sio.rooms(victim['sid']):
            problems.append(('victim-not-removed', repr(sio.rooms(
                victim['sid']))))
        if any(victim['sid'] in v for v in m.pending_disconnect.values()):
            problems.append(('pending-disconnect-residue', repr(
                m.pending_disconnect)))
        if victim['sid'] in m.callbacks:
            problems.append(('callbacks-residue', ''))
    if other is not None:
        o_killed = 'lose' in names or 'odisc' in names
        o_inv = [e for e in o['log'] if e[1] == other['sid']]
        if len(o_inv) != (1 if o_killed else 0):
            problems.append(('other-namespace-handler-count',
                             '%d invocations, killed=%s' % (len(o_inv),
                                                            o_killed)))
        if not o_killed and not m.is_connected(other['sid'], '/x'):
            problems.append(('other-namespace-affected', ''))
        if o_killed and (m.is_connected(other['sid'], '/x') or any(
                other['sid'] in v for v in m.pending_disconnect.values())):
            problems.append(('other-namespace-not-removed', ''))
    if by is not None and 'bydisc' in names:
        b_inv = [e for e in o['log'] if e[1] == by['sid']]
        if len(b_inv) != 1:
            problems.append(('neighbour-disconnect-handler-count',
                             '%d invocations' % len(b_inv)))
        if m.is_connected(by['sid'], '/') or sio.rooms(by['sid']) or any(
                by['sid'] in v for v in m.pending_disconnect.values()):
            problems.append(('neighbour-not-removed', ''))
        labels['neighbour_disconnected_too'] = True
    elif by is not None:
        if not m.is_connected(by['sid'], '/') or set(sio.rooms(
                by['sid'])) != {by['sid'], 'rb'}:
            problems.append(('bystander-affected', repr(sio.rooms(
                by['sid']))))
        if [e for e in o['log'] if e[1] == by['sid']]:
            problems.append(('bystander-disconnect-handler', ''))
    if problems:
        for kind, det in problems:
            if not _explained_by_race(kind, det, races):
                raise Violation(kind, '%s [%s]' % (det, what))
        kind, det = problems[0]
        if KF_RACE in KNOWN:
            labels['kf:' + KF_RACE] = True
            return labels
        raise Violation(KF_RACE, '%s: %s [%s]' % (kind, det, what))
    return labels


def _races(sched):
    """Namespaces on which two actors interleaved between one's
    connected-check and its mark: check_a < (mark_b | remove_b) < mark_a."""
    ev = {}     # ns -> list of (index, actor, what)
    for i, (a, l, h) in enumerate(sched.trace):
        if not l.startswith('mgr.'):
            continue
        name, _, ns = l[4:].partition(':')
        what = {'is_connected': 'check', 'can_disconnect': 'check',
                'pre_disconnect': 'mark', 'disconnect': 'remove'}.get(name)
        if what:
            ev.setdefault(ns, []).append((i, a, what))
    out = set()
    for ns, lst in ev.items():
        actors = {a for _, a, _ in lst}
        for a in actors:
            chk = [i for i, x, w in lst if x == a and w == 'check']
            mk = [i for i, x, w in lst if x == a and w == 'mark']
            if not chk:
                continue
            lo = chk[0]
            hi = mk[0] if mk else 10**9
            for i, x, w in lst:
                if x != a and w in ('mark', 'remove') and lo < i < hi:
                    out.add(ns)
    return out


def _explained_by_race(kind, det, races):
    """The symptoms the known check-then-mark race produces, and only on a
    namespace on which that interleaving actually happened."""
    if not races:
        return False
    if kind == 'disconnect-handler-twice':
        return '/' in races
    if kind == 'other-namespace-handler-count':
        return '/x' in races and '2 invocations' in det
    if kind == 'pending-disconnect-residue':
        # marked twice, unmarked once
        return any(repr(ns) in det for ns in races)
    if kind == 'other-namespace-not-removed':
        return '/x' in races
    if kind == 'thread-raised':
        for ns in races:
            if 'KeyError(%r)' % ns in det:
                return True
    return False


def classify(case, v):
    return v.kind
