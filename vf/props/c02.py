"""C02 End-to-end payload transparency between client and server handlers."""
from hypothesis import strategies as st

from .. import strategies as S
from ..case import strict_eq
from ..core import Violation
from ..link import Link
from ..wire import pack_args

PID = 'C02'
RULE = ('A real Client (AsyncClient) is connected to a real Server '
        '(AsyncServer) through the real engine.io packet codec (binary '
        'frames as bytes, or base64 text payloads batched through '
        'engineio.payload.Payload), default and msgpack serializers: 8 '
        'configurations. Generated scripts of emit / send / call in both '
        'directions on 1-3 namespaces with generated event names, payloads '
        '(JSON+bytes trees, tuples only at top level, 64-bit ints) and '
        'handler return values, with and without acknowledgement, bursts '
        'of consecutive messages, and answers kept in flight (in order) '
        'while the next burst is sent, so that acknowledgements overtake '
        'later emits; asyncio handlers alternate between plain and '
        'coroutine functions, and the packets in flight may be received '
        'back to back (one polling payload) before any background task '
        'runs; calls whose answer stays in flight until they have timed '
        'out (the late answer must reach nobody); a last group of client emits with disconnect() called right behind them. Oracle: the peer handler for that event and '
        'namespace is invoked exactly once with args == the documented '
        'packing of the payload (type-strict), in send order per direction; '
        'callback args / call() result follow the same rule applied to the '
        'return value. Non-trivial: payload or return value has bytes below '
        'the top level, or is a tuple of length != 1, or is a falsy non-None '
        'value, and >=2 messages in one direction.')
ASSUMPTIONS = [
    'event names exclude the reserved names and "*"; no lone surrogates; '
    'namespace names have no control characters',
    'a text-framed payload carries at most 16 packets (engine.io decoder '
    'cap), so binary messages there have at most 14 attachments',
    'messages are issued by a single sender at a time',
    'with async_handlers enabled the harness runs background handlers FIFO',
]
BUDGET = {'quick': 3000, 'thorough': 48000}
FLOOR = {'quick': 100, 'thorough': 4000}
NSS = ['/', '/a', '/ünï', '/x/y']
RESERVED = {'connect', 'disconnect', 'connect_error', '__disconnect_final',
            '*'}


def strategy(tier):
    big = tier == 'thorough'
    leaves = 10 if big else 6
    pay = S.payload_st(with_bytes=True, bits64=True, max_leaves=leaves)
    name = st.one_of(
        st.sampled_from(['ev', 'my event', 'message', 'é', '', 'a/b', '1']),
        S.text_st(max_size=6)).filter(lambda n: n not in RESERVED)
    msg = st.fixed_dictionaries({
        'dir': st.sampled_from(['c2s', 's2c']),
        # call_late: the answer to a call() stays in flight until the call
        # has timed out; it arrives later and must not reach anybody else
        'kind': st.sampled_from(['emit', 'emit', 'emit_cb', 'send',
                                 'send_cb', 'call', 'call', 'call_late']),
        'ns': st.integers(0, 3), 'event': name, 'data': pay, 'ret': pay,
        # the receiving handler raises after it was invoked (only for
        # messages without acknowledgement): what follows must still arrive
        'fault': st.sampled_from([False, False, False, True])})
    # a burst is a list of messages sent back to back; 'hold' (last element)
    # is how many frames of the *answering* direction arrive before the next
    # burst is sent (None: all) - the rest stays in flight, in order
    # 'sdisc': while the burst is still in flight towards the server, the
    # server ends another namespace of the client
    burst = st.tuples(st.lists(msg, min_size=1, max_size=4),
                      st.sampled_from([None, None, None, 0, 1, 2, 3]),
                      st.sampled_from([None, None, None, 0, 1, 2])).map(
        lambda t: t[0] + [{'hold': t[1], 'sdisc': t[2]}])
    return st.fixed_dictionaries({
        'aio': st.booleans(),
        'serializer': st.sampled_from(['default', 'msgpack']),
        'framing': st.sampled_from(['binary', 'b64']),
        # asyncio: every second registered handler is a plain function
        # instead of a coroutine function
        'mixed': st.booleans(),
        # packets in flight are received back to back, handlers' background
        # tasks run afterwards (one polling payload)
        'batch': st.booleans(),
        'nss': st.lists(st.integers(0, 3), min_size=1, max_size=3,
                        unique=True),
        # at the very end the client emits a few more events and calls
        # disconnect() right behind them: they were sent, so they are handled
        'final': st.one_of(st.none(), st.lists(st.fixed_dictionaries({
            'ns': st.integers(0, 3),
            'data': st.sampled_from([None, 'x', [1, 2], {'k': b'v'},
                                     (1, 'two')])}),
            min_size=1, max_size=3)),
        'bursts': st.lists(burst, min_size=1, max_size=8 if big else 4)})


def _interesting(v):
    if isinstance(v, tuple):
        if len(v) != 1:
            return True
        return any(_interesting(x) for x in v)
    if S.bytes_depth(v) >= 1:
        return True
    return v is not None and not v and not isinstance(v, tuple)


def check_case(case):
    ln = Link(aio=case['aio'], serializer=case['serializer'],
              framing=case['framing'], batch=case.get('batch', False))
    try:
        return _run(case, ln)
    finally:
        ln.close()


def _run(case, ln):
    aio = case['aio']
    ssio, csio = ln.sh.sio, ln.ch.sio
    nss = [NSS[i] for i in case['nss']]
    slog, clog = [], []     # (ns, event, args)
    rets = {}               # (dir, ns, event) -> list of pending returns

    def next_ret(d, ns, ev):
        q = rets.get((d, ns, ev))
        r = q.pop(0) if q else None
        if isinstance(r, dict) and r.get('__fault__'):
            raise RuntimeError('application handler fault')
        return r

    nreg = {'s': 0, 'c': 0}

    def plain(side):
        nreg[side] += 1
        return case.get('mixed') and nreg[side] % 2 == 0

    def mk_server(ns, ev):
        if aio and not plain('s'):
            async def h(sid, *args):
                slog.append((ns, ev, sid, args))
                return next_ret('c2s', ns, ev)
        else:
            def h(sid, *args):
                slog.append((ns, ev, sid, args))
                return next_ret('c2s', ns, ev)
        return h

    def mk_client(ns, ev):
        if aio and not plain('c'):
            async def h(*args):
                clog.append((ns, ev, args))
                return next_ret('s2c', ns, ev)
        else:
            def h(*args):
                clog.append((ns, ev, args))
                return next_ret('s2c', ns, ev)
        return h

    for n in nss:
        ssio.on('connect', (lambda sid, environ, auth=None: None),
                namespace=n)
    seen = set()
    if case.get('final'):
        for ns in nss:
            ssio.on('fin', mk_server(ns, 'fin'), namespace=ns)
    for burst in case['bursts']:
        for m in burst:
            if 'hold' in m:
                continue
            ev = 'message' if m['kind'].startswith('send') else m['event']
            # (on every namespace: the namespace a message index maps to
            # changes when the server ends one of them)
            for ns in nss:
                if (ns, ev) not in seen:
                    seen.add((ns, ev))
                    ssio.on(ev, mk_server(ns, ev), namespace=ns)
                    csio.on(ev, mk_client(ns, ev), namespace=ns)

    if aio:
        ln.run_client(lambda: csio.connect('http://h', namespaces=nss))
    else:
        ln.run_client(lambda: csio.connect('http://h', namespaces=nss))
    if set(csio.namespaces) != set(nss):
        raise Violation('link-connect', repr(csio.namespaces))
    sids = {n: csio.get_sid(n) for n in nss}
    labels = {'aio': aio, 'serializer': case['serializer'],
              'framing': case['framing'], 'nontrivial': False}
    n_int = 0

    cbs = []
    for bi, burst in enumerate(case['bursts']):
        d = burst[0]['dir']
        slog.clear()
        clog.clear()
        exp = []
        hold = None
        sdisc = None
        if 'hold' in burst[-1]:
            hold = burst[-1]['hold']
            sdisc = burst[-1].get('sdisc')
            burst = burst[:-1]
        for mi, m in enumerate(burst):
            ns = nss[m['ns'] % len(nss)]
            kind = m['kind']
            ev = 'message' if kind.startswith('send') else m['event']
            data, ret = m['data'], m['ret']
            if m.get('fault') and kind in ('emit', 'send'):
                ret = {'__fault__': True}
                labels['handler_fault'] = True
            rets.setdefault((d, ns, ev), []).append(ret)
            exp.append((ns, ev, pack_args(data)))
            if kind == 'call_late':
                kw_l = {'namespace': ns, 'timeout': 1}
                api = csio if d == 'c2s' else ssio
                if d == 's2c':
                    kw_l['to'] = sids[ns]
                lim = {'max_s2c': 0} if d == 'c2s' else {'max_c2s': 0}
                try:
                    r = ln.run_client(lambda: api.call(ev, data, **kw_l),
                                      **lim)
                except Exception as e:
                    if type(e).__name__ != 'TimeoutError':
                        raise
                else:
                    raise Violation('call-returned-without-answer',
                                    '%s %r on %s: %r' % (d, ev, ns, r))
                labels['call_timed_out_answer_late'] = True
                continue
            if _interesting(data) or (kind in ('emit_cb', 'send_cb', 'call')
                                      and _interesting(ret)):
                n_int += 1
            slot = {'m': m, 'got': None, 'want': pack_args(ret), 'ns': ns}

            def mk_cb(slot):
                if aio:
                    async def cb(*a):
                        slot.setdefault('calls', []).append(a)
                else:
                    def cb(*a):
                        slot.setdefault('calls', []).append(a)
                return cb
            api = csio if d == 'c2s' else ssio
            kw = {'namespace': ns}
            if d == 's2c':
                kw['to'] = sids[ns]
            if kind in ('emit', 'emit_cb'):
                if kind == 'emit_cb':
                    kw['callback'] = mk_cb(slot)
                    cbs.append(slot)
                ln.ch.do(api.emit(ev, data, **kw)) if not aio else \
                    ln.loop.run(api.emit(ev, data, **kw))
            elif kind in ('send', 'send_cb'):
                if kind == 'send_cb':
                    kw['callback'] = mk_cb(slot)
                    cbs.append(slot)
                ln.ch.do(api.send(data, **kw)) if not aio else \
                    ln.loop.run(api.send(data, **kw))
            else:
                kw['timeout'] = 5
                try:
                    r = ln.run_client(lambda: api.call(ev, data, **kw))
                except Exception as e:
                    if type(e).__name__ == 'TimeoutError':
                        raise Violation('call-timed-out',
                                        '%s %r on %s' % (d, ev, ns))
                    raise
                want = slot['want']
                want_r = None if not want else (
                    want[0] if len(want) == 1 else tuple(want))
                if not strict_eq(r, want_r):
                    raise Violation('call-result', '%s: %r != %r'
                                    % (d, r, want_r))
        if sdisc is not None and d == 'c2s' and len(nss) > 1:
            busy = {nss[m['ns'] % len(nss)] for m in burst}
            # (a namespace that still waits for an answer is left alone: its
            # end would legitimately drop the callback)
            busy |= {sl['ns'] for sl in cbs if not sl.get('calls')}
            free = [n for n in nss if n not in busy]
            if free:
                ns_d = free[sdisc % len(free)]
                ln.sh.do(ssio.disconnect(sids[ns_d], namespace=ns_d))
                ln.pump(max_c2s=0)      # the client learns of it first
                if ns_d in csio.namespaces:
                    raise Violation('namespace-still-listed', ns_d)
                nss.remove(ns_d)
                labels['other_namespace_ended_mid_burst'] = True
        if hold is None:
            ln.pump()
        elif d == 'c2s':
            ln.pump(max_s2c=hold)
            labels['answers_held'] = True
        else:
            ln.pump(max_c2s=hold)
            labels['answers_held'] = True
        log = slog if d == 'c2s' else clog
        got = [(e[0], e[1], list(e[3] if d == 'c2s' else e[2])) for e in log]
        if d == 'c2s':
            for e in log:
                if e[2] != sids[e[0]]:
                    raise Violation('wrong-sid', repr(e))
        other = clog if d == 'c2s' else slog
        if other:
            raise Violation('handler-on-wrong-side', repr(other[:2]))
        if len(got) != len(exp):
            raise Violation('invocation-count', '%s: %d handled, %d sent: %r'
                            % (d, len(got), len(exp), got[:3]))
        for g, e in zip(got, exp):
            if g[0] != e[0] or g[1] != e[1]:
                raise Violation('handling-order', '%r vs %r' % (g[:2],
                                                                e[:2]))
            if not strict_eq(g[2], e[2]):
                raise Violation('arguments-changed', '%s %r on %s: %r != %r'
                                % (d, e[1], e[0], g[2], e[2]))
        if len(burst) >= 2:
            labels['burst'] = True
    # everything still in flight arrives; every callback ran exactly once
    # with the value its own handler returned
    ln.pump()
    for slot in cbs:
        calls = slot.get('calls', [])
        if len(calls) != 1:
            raise Violation('callback-count', '%d calls of the callback of '
                            '%s %r' % (len(calls), slot['m']['dir'],
                                       slot['m']['event']))
        if not strict_eq(list(calls[0]), slot['want']):
            raise Violation('callback-arguments', '%r != %r'
                            % (list(calls[0]), slot['want']))
    if case.get('final') and nss:
        slog.clear()
        exp = []
        for m in case['final']:
            ns = nss[m['ns'] % len(nss)]
            exp.append((ns, 'fin', pack_args(m['data'])))
            if aio:
                ln.loop.run(csio.emit('fin', m['data'], namespace=ns))
            else:
                ln.ch.do(csio.emit('fin', m['data'], namespace=ns))
        if aio:
            ln.loop.run(csio.disconnect())
        else:
            ln.ch.do(csio.disconnect())
        ln.pump()
        got = [(e[0], e[1], list(e[3])) for e in slog]
        if len(got) != len(exp):
            raise Violation('invocation-count', 'events sent right before '
                            'disconnect(): %d handled, %d sent: %r'
                            % (len(got), len(exp), got[:3]))
        for g, e in zip(got, exp):
            if g[0] != e[0] or g[1] != e[1] or not strict_eq(g[2], e[2]):
                raise Violation('arguments-changed', 'before disconnect(): '
                                '%r != %r' % (g, e))
        labels['events_right_before_client_disconnect'] = True
    errs = [e for e in ln.ch.bg_errors + ln.sh.bg_errors + [
        x[1] for x in ln.sh.swallowed + ln.ch.swallowed]
        if 'application handler fault' not in str(e)]
    if errs:
        raise Violation('error-during-exchange', repr(errs[0]))
    nmsg = sum(len([m for m in b if 'hold' not in m]) for b in case['bursts'])
    labels['nontrivial'] = n_int >= 1 and nmsg >= 2
    labels['interesting_values'] = min(n_int, 5)
    return labels


def classify(case, v):
    return v.kind
