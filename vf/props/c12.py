"""C12 Hostile input from one client cannot touch other clients or stop the
server."""
import copy
import resource
import tracemalloc

from hypothesis import strategies as st

from .. import graphsize
from .. import strategies as S
from .. import wire
from ..case import strict_eq
from ..core import Violation
from ..world import World

PID = 'C12'
KNOWN = set()
KF_STAR = 'event-named-star-reaches-catch-all-unprefixed'
RULE = ('One offender transport sends generated sequences of hostile frames '
        '(grammar-level mutations of valid frames: span deletion / '
        'duplication / swap, digit runs of 9..300, unicode digits, misplaced '
        '- , / ?, truncated and deeply nested JSON, non-list payloads, '
        'non-string event names, bad placeholder objects, wrong attachment '
        'counts, stray binary frames, frames for namespaces it is not on, '
        "values copied from server state such as bystanders' session ids and "
        'outstanding ack ids; unstructured text/bytes; frames that pass '
        "through engine.io's JSON sniffing; for msgpack: mutated maps) "
        'and finally stops answering pings (engine.io closes it from inside '
        'the next broadcast that reaches it); msgpack frames for the '
        'literal namespace "*" and names without a slash; optionally one '
        'more bystander whose disconnect is in progress (handler '
        'suspended) while the frames - incl. refusable connection '
        'requests - arrive, '
        'interleaved with well-formed traffic of 3 bystander clients that '
        'each hold a room, a session and an outstanding callback; both '
        'servers, default and msgpack serializers. Oracle after every '
        "offender frame: bystanders' rooms / sessions / outstanding "
        'callbacks / queues / handler and callback logs unchanged; every '
        'handler invocation carries an offender sid in the documented sid '
        "position; a frame the implementation's own decoder rejects, or an "
        'event whose payload is not a non-empty array (also one completed '
        'by its attachments), or a BINARY_EVENT / BINARY_ACK header without '
        'its attachment count (judged from the frame, not by the decoder), '
        'reaches no handler; servers with a fixed namespace list or serving '
        'any namespace; msgpack CONNECTs whose namespace is not a string; '
        "finally every bystander's transport ends and its disconnect "
        'handlers run once each; object-graph growth and tracemalloc peak bounded by the '
        'bytes received (peak < 2 MiB + 400 B per byte of frame: a CONNECT or a '
        'first use of a code path legitimately costs a few hundred KiB, an '
        'allocation proportional to a declared count of 10**7 or more does '
        'not fit); finally each bystander completes a fixed exchange. '
        'Non-trivial: the sequence contains a frame that decodes to an '
        'allowed packet type on a namespace shared with a bystander.'
        ' What engine.io hands over after JSON-sniffing a text message is judged too (anything but str / bytes / a plain int is not a packet); a third of the msgpack histories start with a CONNECT for the namespace "*" and events there that name a bystander.'
        ' A placeholder in a binary packet that announces no attachments makes the frame undecodable.'
        ' Under msgpack a packet type that is not an integer or a namespace that is not a string (or nil) makes the frame undecodable.')
ASSUMPTIONS = [
    '"cannot be decoded" means the implementation\'s decoder raised, or the '
    'payload of an EVENT / BINARY_EVENT is not a non-empty array',
    'harness handlers do not emit; each frame is processed to quiescence '
    'before the next one (exact attribution)',
    'engine.io contains exceptions raised by the message handler (trusted)',
    "the offender's own connection may be left unusable",
]
BUDGET = {'quick': 2400, 'thorough': 100000}
FLOOR = {'quick': 100, 'thorough': 5000}
NSS = ['/', '/x', '/c', '/none']

SEEDS = [
    '2["a",1]', '2["a","§B0§"]', '2/x,["a","§B1§"]', '2/x,["*","§B1§",1]',
    '2/x,3["zz",{"k":1}]', '2/c,["a"]', '2/c,7["b",[1,2]]', '2/c,["zz"]',
    '51-["a",{"_placeholder":true,"num":0}]',
    '50-["a",{"_placeholder":true,"num":0}]',
    '60-§ID0§[{"_placeholder":true,"num":0}]',
    '50-/x,["a",[{"_placeholder":true,"num":3}]]',
    '52-/x,9["a",{"_placeholder":true,"num":1},{"_placeholder":true,"num":0}]',
    '3/x,§ID1§["r"]', '3§ID0§[]', '31[]', '3/c,§ID2§[1,2]',
    '61-§ID0§[{"_placeholder":true,"num":0}]',
    '61-/x,§ID1§[{"_placeholder":true,"num":0}]',
    '0{"refuse":1}', '0/x,{"refuse":1}', '0/c,{"refuse":1}',
    '0', '0/x,{"token":"t"}', '0/none', '0/c', '0/unk', '1', '1/x', '1/c',
    '4/x,"err"', '4', '2/unk,["a"]', '2/§B0§,["a"]', '2/none,["a"]',
    '2["connect","§B0§",{}]', '2["disconnect","§B0§"]',
    '2/x,["disconnect","§B1§","x"]', '2/c,["connect","§B2§",{},{}]',
    '2/c,["disconnect","§B2§"]', '2["b","§B0§"]', '2/none,["b","§B0§"]',
    '2/none,["zz","§B0§","§B1§"]', '2/x,1["a"]', '20["a"]', '2/x,0["a"]',
    # payloads of the wrong type: an event is an array that starts with
    # its name
    '2"a"', '2/x,"zz"', '2{"a":"§B0§"}', '2/c,"ab"', '2[]', '2/x,5{"zz":1}',
    '2"b§B0§"', '2null', '2/c,true', '51-"a"', '51-/x,"zz"',
    '31"abc"', '3/x,1{"a":1,"b":2}', '31', '3/c,1', '3/x,1"r"',
    '5["a","x"]', '5/x,12["zz","x"]', '61["forged"]', '5/c,["a"]',
    '61-1{"_placeholder":true,"num":0}', '31[1]',
    '52-"ab"', '51-{"_placeholder":true,"num":0}',
]


def strategy(tier):
    big = tier == 'thorough'
    text = S.hostile_text_st(SEEDS)
    frame = st.one_of(
        st.fixed_dictionaries({'k': st.just('text'), 'v': text}),
        st.fixed_dictionaries({'k': st.just('text'), 'v': text}),
        st.fixed_dictionaries({'k': st.just('text'),
                               'v': st.sampled_from(SEEDS)}),
        st.fixed_dictionaries({'k': st.just('wire'), 'v': st.one_of(
            text, st.sampled_from(['[1,2]', '{"a":1}', 'true', 'null', '"2"',
                                   '[]', '{}', '["2[\\"a\\"]"]', '2', '-1',
                                   '{"type":2,"data":["a"],"nsp":"/"}',
                                   'false', ' 1.0', ' 0.0', '\n2.0',
                                   'true', ' true', 'false']))}),
        st.fixed_dictionaries({'k': st.just('bin'),
                               'v': st.one_of(S.bytes_st(), st.binary(
                                   max_size=30))}),
        st.fixed_dictionaries({'k': st.just('by'), 'b': st.integers(0, 2),
                               'id': st.one_of(st.none(),
                                               st.integers(0, 3))}))
    mp = st.one_of(
        st.fixed_dictionaries({'k': st.just('mp'), 'v': S.hostile_msgpack_st(
            ['a', 'b', 'zz', '§B0§', '§B1§'], NSS + ['/unk', '§B0§', 'x', '*', '*'])}),
        st.fixed_dictionaries({'k': st.just('mp'), 'v': S.hostile_msgpack_st(
            ['a', 'b', 'zz', '§B0§', '§B1§'], NSS + ['/unk', '§B0§', 'x', '*', '*'])}),
        st.fixed_dictionaries({'k': st.just('bin'), 'v': st.binary(
            max_size=30)}),
        st.fixed_dictionaries({'k': st.just('text'), 'v': text}),
        # msgpack carries the namespace as a plain string: the catch-all
        # marker itself, names without a leading slash
        st.fixed_dictionaries({'k': st.just('mp'), 'v': st.sampled_from([
            {'type': 0, 'nsp': '*'}, {'type': 0, 'nsp': '*', 'data': {}},
            {'type': 2, 'nsp': '*', 'data': ['b', '§B0§', 'x']},
            {'type': 2, 'nsp': '*', 'data': ['zz', '§B1§'], 'id': 1},
            {'type': 2, 'nsp': '*', 'data': ['a', '§B2§']},
            {'type': 1, 'nsp': '*'}, {'type': 0, 'nsp': 'x'},
            {'type': 0, 'nsp': ''}, {'type': 2, 'nsp': '', 'data': ['a']},
            # ... or as anything else
            {'type': 0, 'nsp': 7}, {'type': 0, 'nsp': b'/x'},
            {'type': 0, 'nsp': ['/']}, {'type': 0, 'nsp': 1.5},
            {'type': 2, 'nsp': 7, 'data': ['b', '§B0§']},
            {'type': 0, 'nsp': True}, {'type': 0, 'nsp': {'/': 1}},
            {'type': 2.0, 'nsp': '/', 'data': ['a', 1]},
            {'type': 2.0, 'nsp': [], 'data': ['a', 1]},
            {'type': True, 'nsp': '/'}, {'type': True, 'nsp': 0},
            {'type': 3.0, 'nsp': False, 'id': 1, 'data': ['x']},
            {'type': False, 'nsp': '/x'},
            {'type': 2, 'nsp': False, 'data': ['a', 2]}])}),
        st.fixed_dictionaries({'k': st.just('by'), 'b': st.integers(0, 2),
                               'id': st.one_of(st.none(),
                                               st.integers(0, 3))}))
    n = 12 if not big else 25

    def mk(ser):
        return S.fdict({
            'aio': st.booleans(), 'serializer': st.just(ser),
            # the served namespaces: a fixed list, or any (the offender can
            # then create namespaces of its own)
            'nsconf': st.sampled_from(['list', 'list', 'star']),
            'off_ns': st.lists(st.sampled_from([0, 1, 2, 3]), max_size=3,
                               unique=True),
            'frames': st.lists(frame if ser == 'default' else mp,
                               min_size=1, max_size=n) if ser == 'default'
            else st.one_of(
                st.lists(mp, min_size=1, max_size=n),
                st.lists(mp, min_size=1, max_size=n),
                # the offender first asks for the namespace literally named
                # '*' (the catch-all key of the handler registry) and then
                # sends events there that name a bystander
                st.lists(mp, min_size=0, max_size=n - 3).map(lambda l: [
                    {'k': 'mp', 'v': {'type': 0, 'nsp': '*'}},
                    {'k': 'mp', 'v': {'type': 2, 'nsp': '*',
                                      'data': ['b', '§B0§', 'x']}},
                    {'k': 'mp', 'v': {'type': 2, 'nsp': '*', 'id': 1,
                                      'data': ['zz', '§B1§']}}] + l)),
            # afterwards the offender stops answering pings: engine.io
            # notices inside the next send to it and closes it from there
            'silent': st.booleans(),
            # whether the server has emitted to the offender with a callback
            # before (an ACK can also arrive where none was ever expected)
            'off_cb': st.booleans(),
            # asyncio: one more bystander is in the middle of its disconnect
            # (its handler suspended) while the offender's frames arrive
            'mid_disc': st.booleans(),
            # ... by server.disconnect() or by the loss of its transport
            'mid_how': st.sampled_from(['sdisc', 'lose'])})
    return st.sampled_from(['default', 'default', 'msgpack']).flatmap(mk)


# position of the parameter that the documented signature calls "sid"
SID_POS = {'fn': 0, 'catchall': 1, 'class': 0, 'nsfn': 1, 'nscatchall': 2,
           'connect': 0, 'disconnect': 0, 'nsconnect': 1, 'nsdisconnect': 1}

_started = [False]


def _limits():
    if not _started[0]:
        _started[0] = True
        try:
            resource.setrlimit(resource.RLIMIT_AS, (12 * 2**30, 12 * 2**30))
        except (ValueError, OSError):
            pass
        tracemalloc.start(1)


def check_case(case):
    _limits()
    w = World(aio=case['aio'], serializer=case['serializer'],
              namespaces='*' if case.get('nsconf') == 'star' else NSS)
    try:
        return _run(case, w)
    finally:
        w.close()


def _has_placeholder(v):
    if isinstance(v, dict):
        if v.get('_placeholder') and 'num' in v:
            return True
        return any(_has_placeholder(x) for x in v.values())
    if isinstance(v, list):
        return any(_has_placeholder(x) for x in v)
    return False


def _subst(v, table):
    if isinstance(v, str):
        for k, r in table.items():
            if k in v:
                v = v.replace(k, r)
        return v
    if isinstance(v, list):
        return [_subst(x, table) for x in v]
    if isinstance(v, dict):
        return {_subst(k, table): _subst(x, table) for k, x in v.items()}
    return v


def _run(case, w):
    import socketio
    sio = w.sio
    aio = case['aio']
    ser = case['serializer']
    log = []       # (kind, args)
    cb_log = []    # (bystander, args)

    def mk(kind):
        def h(*args):
            log.append((kind, args))
            if kind == 'connect' and args and args[-1] == {'refuse': 1}:
                return False
            return 'r'
        return h

    for ns in ('/', '/x', '/c', '/none'):
        sio.on('connect', mk('connect'), namespace=ns)
        sio.on('disconnect', mk('disconnect'), namespace=ns)
    sio.on('a', mk('fn'), namespace='/')
    sio.on('a', mk('fn'), namespace='/x')
    sio.on('*', mk('catchall'), namespace='/x')
    sio.on('b', mk('nsfn'), namespace='*')
    sio.on('*', mk('nscatchall'), namespace='*')
    base = socketio.AsyncNamespace if aio else socketio.Namespace
    nso = base('/c')
    nso.on_a = mk('class')
    nso.on_b = mk('class')
    sio.register_namespace(nso)

    t_off = w.open()
    off_sids = set()
    off_cb_log = []     # the offender's own outstanding callbacks (id 1)
    for i in case['off_ns']:
        ci, _ = w.connect(t_off, NSS[i])
        if ci is not None:
            off_sids.add(w.clients[ci]['sid'])
            if case.get('off_cb', True):
                w.do(sio.emit('q', 1, to=w.clients[ci]['sid'],
                              namespace=NSS[i],
                              callback=lambda *a: off_cb_log.append(a)))
    by = []
    for i, nss in enumerate([['/'], ['/x'], ['/x', '/c']]):
        t = w.open()
        for ns in nss:
            ci, _ = w.connect(t, ns)
            c = w.clients[ci]
            w.do(sio.enter_room(c['sid'], 'rb', namespace=ns))
            w.do(sio.save_session(c['sid'], {'who': i, 'ns': ns},
                                  namespace=ns))
            w.do(sio.emit('q', 1, to=c['sid'], namespace=ns,
                          callback=(lambda i=i, ns=ns: (
                              lambda *a: cb_log.append((i, ns, a))))()))
            by.append({'i': i, 't': t, 'ns': ns, 'sid': c['sid'], 'ci': ci})
        w.recv(t)
    w.recv(t_off)
    by_sids = {b['sid'] for b in by}
    vst = None
    if case.get('mid_disc') and aio:
        vst = {'count': 0}
        tv = w.open()
        cv, _ = w.connect(tv, '/')
        vst['sid'] = w.clients[cv]['sid']
        vst['t'] = tv
        vst['gate'] = w.h.loop.create_future()
        by_sids.add(vst['sid'])

        async def disc_root(sid, reason):
            log.append(('disconnect', (sid, reason)))
            if sid == vst['sid']:
                vst['count'] += 1
                if not vst['gate'].done():
                    await vst['gate']
        sio.on('disconnect', disc_root, namespace='/')
        if case.get('mid_how') == 'lose':
            vsock = w.h.eio.sockets[w.t[tv]]
            vst['task'] = w.h.loop.spawn(vsock.close(
                wait=False, abort=True, reason=w.h.reason.TRANSPORT_ERROR))
        else:
            vst['task'] = w.h.loop.spawn(sio.disconnect(vst['sid']))
        w.h.loop.run_until_idle()
        w.recv(tv)
    log.clear()

    def cb_ids(sid):
        return sorted(k for k in sio.manager.callbacks.get(sid, {})
                      if isinstance(k, int) and not isinstance(k, bool))

    table = {'§B0§': by[0]['sid'], '§B1§': by[1]['sid'],
             '§B2§': by[3]['sid'], '§O§': next(iter(off_sids), 'none')}
    for j, b in enumerate([by[0], by[1], by[3]]):
        ids = cb_ids(b['sid'])
        table['§ID%d§' % j] = str(ids[0]) if ids else '1'

    def snapshot():
        out = []
        for b in by:
            sess = w.do(sio.get_session(b['sid'], namespace=b['ns']))
            out.append((sorted(map(repr, sio.rooms(b['sid'],
                                                   namespace=b['ns']))),
                        copy.deepcopy(sess), cb_ids(b['sid']),
                        sio.manager.is_connected(b['sid'], b['ns'])))
        return out

    labels = {'aio': aio, 'serializer': ser, 'nontrivial': False}
    shared = {NSS[i] for i in case['off_ns']} & {'/', '/x', '/c'}
    next_by_id = [100]
    pending_bad = [False]   # a binary event with a non-array payload waits
    for step, fr in enumerate(case['frames']):
        k = fr['k']
        if k == 'by':
            b = by[fr['b'] % len(by)]
            log.clear()
            pid = fr['id']
            w.send(b['t'], wire.EVENT, b['ns'], pid, ['a', step])
            w.h.settle()
            inv = [e for e in log if e[0] in ('fn', 'class')]
            if len(inv) != 1 or inv[0][1] != (b['sid'], step):
                raise Violation('bystander-not-served',
                                'step %d: log %r' % (step, log))
            got = w.recv(b['t'])
            want = [] if pid is None else [(wire.ACK, b['ns'], pid, ['r'])]
            if [(p['type'], p['nsp'], p['id'], p['data']) for p in got] != \
                    want:
                raise Violation('bystander-not-served',
                                'step %d: frames %r' % (step, got))
            log.clear()
            continue
        # ---- offender frame
        before = snapshot()
        ncb = len(cb_log)
        log.clear()
        if k == 'text':
            body = _subst(fr['v'], table)
            if ser == 'msgpack':
                body = body.encode('utf-8', 'surrogatepass')
        elif k == 'bin':
            body = fr['v']
        elif k == 'mp':
            import msgpack
            try:
                body = msgpack.dumps(_subst(fr['v'], table))
            except Exception:
                continue
        else:
            body = None
        eio_sid = w.t[t_off]
        mid_binary = eio_sid in sio._binary_packet
        if not mid_binary:
            pending_bad[0] = False
        decodable = None
        bad_ack = False
        n_off_cb = len(off_cb_log)
        if body is not None and not mid_binary:
            try:
                p = sio.packet_class(encoded_packet=body)
                decodable = True
                if ser == 'msgpack' and (
                        type(p.packet_type) is not int or
                        not isinstance(p.namespace, (str, type(None)))):
                    # msgpack carries every field with a type of its own:
                    # a packet type that is not an integer (2.0, true), a
                    # namespace that is not a string or nil ([], false, 7) make no
                    # packet (the reference parser checks both)
                    decodable = False
                    labels['msgpack_field_of_wrong_type'] = True
                if ser == 'msgpack' and p.packet_type in (5, 6):
                    # msgpack carries bytes inline: these types do not exist
                    decodable = False
                    labels['binary_type_without_count'] = True
                if ser != 'msgpack' and isinstance(body, str) and \
                        body[:1] in ('5', '6'):
                    j = 1
                    while j < len(body) and body[j] in '0123456789':
                        j += 1
                    if j == 1 or body[j:j + 1] != '-':
                        # a binary packet announces its attachments
                        decodable = False
                        labels['binary_type_without_count'] = True
                if ser != 'msgpack' and p.packet_type in (5, 6) and \
                        p.attachment_count == 0 and _has_placeholder(p.data):
                    # a placeholder in a packet that announces no attachment
                    # refers to nothing ("illegal attachments" for the
                    # reference parser)
                    decodable = False
                    labels['placeholder_without_attachments'] = True
                if p.packet_type in (2, 5) and not (
                        isinstance(p.data, list) and p.data):
                    # not an event: nothing names it, nothing to spread
                    decodable = False
                    labels['payload_of_wrong_type'] = True
                    if p.packet_type == 5 and p.attachment_count > 0:
                        # ... and not after its attachments have come either
                        pending_bad[0] = True
                if p.packet_type in (3, 6) and not isinstance(p.data, list):
                    # not an acknowledgement: nothing to hand to a callback
                    bad_ack = True
                    labels['ack_payload_of_wrong_type'] = True
                    if p.packet_type == 6 and p.attachment_count > 0:
                        pending_bad[0] = True
                if p.packet_type in (2, 3, 5, 6) and \
                        (p.namespace or '/') in shared:
                    labels['nontrivial'] = True
                    labels['allowed_type_on_shared_ns'] = True
            except Exception:
                decodable = False
        if k == 'wire' and not mid_binary:
            # engine.io JSON-decodes a text message that does not start with
            # a digit: what it then hands over is not a Socket.IO packet (a
            # packet starts with its type digit), except the plain integers
            # of the legacy form
            try:
                sniffed = w.h.eio_packet.Packet(
                    encoded_packet='4' + _subst(fr['v'], table)).data
            except Exception:
                sniffed = ''
            if type(sniffed) not in (str, bytes, int):
                decodable = False
                labels['sniffed_value_not_a_packet'] = True
        g0 = graphsize.size(sio)
        tracemalloc.reset_peak()
        m0 = tracemalloc.get_traced_memory()[0]
        nsw = len(w.h.swallowed)
        try:
            if k == 'wire':
                wtext = _subst(fr['v'], table)
                w.h.feed_wire(eio_sid, wtext)
                flen = len(wtext)
            else:
                w.h.feed(eio_sid, body)
                flen = len(body)
            w.h.settle()
        except MemoryError:
            raise Violation('resource-memory-error', 'step %d frame %r'
                            % (step, fr))
        peak = tracemalloc.get_traced_memory()[1] - m0
        if peak > 2 * 1024 * 1024 + 400 * flen:
            raise Violation('resource-peak-memory',
                            'step %d frame len %d: peak %d bytes'
                            % (step, flen, peak))
        g1 = graphsize.size(sio)
        if decodable is False:
            labels['undecodable'] = True
        elif decodable:
            labels['decodable'] = True
        # the offender may have (re)connected: learn its new sids
        try:
            for p in w.recv(t_off):
                if p['type'] == wire.CONNECT and isinstance(
                        p['data'], dict) and isinstance(
                            p['data'].get('sid'), str):
                    off_sids.add(p['data']['sid'])
        except Violation:
            pass      # what the offender gets back is outside the claim
        w.readers[t_off] = wire.Reader(ser)
        w.h.drain(eio_sid)
        for e in log:
            if e[0] == 'connect' and e[1] and isinstance(e[1][0], str) and \
                    e[1][0] not in by_sids:
                off_sids.add(e[1][0])
        # --- oracle
        if decodable is False and log:
            raise Violation('undecodable-frame-reached-handler',
                            'step %d frame %r: %r' % (step, fr, log[:2]))
        if (bad_ack or decodable is False or (
                mid_binary and pending_bad[0])) and \
                len(off_cb_log) != n_off_cb:
            raise Violation('undecodable-frame-reached-callback',
                            'step %d frame %r: callback invoked with %r'
                            % (step, fr, off_cb_log[n_off_cb:]))
        if mid_binary and pending_bad[0] and log:
            raise Violation('undecodable-frame-reached-handler',
                            'step %d: the attachments of a binary event '
                            'whose payload is not an array completed it: %r'
                            % (step, log[:2]))
        for kind, args in log:
            pos = SID_POS[kind]
            sidv = args[pos] if len(args) > pos else None
            if kind in ('connect', 'disconnect') and len(args) > 1 and \
                    isinstance(args[0], str) and args[0].startswith('/') \
                    and args[0] in NSS:
                pass
            if sidv not in off_sids:
                kindv = 'handler-on-behalf-of-bystander' \
                    if (isinstance(sidv, str) and sidv in by_sids) \
                    else 'handler-sid-not-offender'
                det = 'step %d frame %r -> %s%r' % (step, fr, kind, args)
                if kind == 'catchall' and _is_star(fr, table):
                    if KF_STAR in KNOWN:
                        labels['kf:' + KF_STAR] = True
                        continue
                    raise Violation(KF_STAR, det)
                raise Violation(kindv, det)
        after = snapshot()
        for b, x, y in zip(by, before, after):
            if x[0] != y[0]:
                raise Violation('bystander-rooms-changed',
                                'step %d frame %r: %r -> %r'
                                % (step, fr, x[0], y[0]))
            if not strict_eq(x[1], y[1]):
                raise Violation('bystander-session-changed',
                                'step %d frame %r' % (step, fr))
            if x[2] != y[2]:
                raise Violation('bystander-callbacks-changed',
                                'step %d frame %r: %r -> %r'
                                % (step, fr, x[2], y[2]))
            if x[3] != y[3]:
                raise Violation('bystander-disconnected',
                                'step %d frame %r' % (step, fr))
        if vst is not None and sio.manager.is_connected(vst['sid'], '/'):
            raise Violation('bystander-disconnect-undone',
                            'step %d frame %r: the client whose disconnect '
                            'is in progress counts as connected again'
                            % (step, fr))
        if len(cb_log) != ncb:
            raise Violation('bystander-callback-invoked',
                            'step %d frame %r: %r' % (step, fr, cb_log[ncb:]))
        for b in by:
            got = w.h.drain(w.t[b['t']])
            if got:
                raise Violation('sent-to-bystander', 'step %d frame %r: %r'
                                % (step, fr, got[:2]))
        if g1 - g0 > 80 + 3 * flen:
            raise Violation('resource-graph-growth',
                            'step %d frame len %d: %d -> %d objects'
                            % (step, flen, g0, g1))
        if peak > 2 * 1024 * 1024 + 400 * flen:
            raise Violation('resource-peak-memory',
                            'step %d frame len %d: peak %d bytes'
                            % (step, flen, peak))
    if vst is not None:
        # somebody else can still join while that disconnect is in progress
        tj = w.open()
        cj, pj = w.connect(tj, '/x')
        if cj is None:
            raise Violation('bystander-not-served',
                            'a new client asked for /x while another '
                            'client was being disconnected: %r' % (pj,))
        by_sids.add(w.clients[cj]['sid'])
        log.clear()
        vst['gate'].set_result(None)
        w.h.loop.run_until_idle()
        if w.t_alive[vst['t']]:
            w.lose(vst['t'])
        w.h.settle()
        if vst['count'] != 1:
            raise Violation('bystander-disconnect-handler-twice',
                            'the disconnect handler of the client whose '
                            'disconnect was in progress ran %d times'
                            % vst['count'])
        labels['bystander_mid_disconnect'] = True
    # ---- final exchange: everybody is still served correctly
    log.clear()
    if case.get('silent'):
        osock = w.h.socket(w.t[t_off])
        if osock is not None and not osock.closed:
            osock.last_ping = 1.0
            labels['offender_silent'] = True
        for ns in ('/', '/x', '/c'):
            w.do(sio.emit('all', 2, namespace=ns))
            w.h.settle()
        if labels.get('offender_silent'):
            w.t_alive[t_off] = False
            w.h.drain(w.t[t_off])
            w.h.eio.sockets.pop(w.t[t_off], None)
        for t in sorted({b['t'] for b in by}):
            got = [p for p in w.recv(t)]
            want = sorted(x['ns'] for x in by if x['t'] == t)
            if sorted(p['nsp'] for p in got) != want or any(
                    p['data'] != ['all', 2] for p in got):
                raise Violation('bystander-broadcast-with-silent-offender',
                                repr(got))
        log.clear()
    # the application can still address the offender like anybody else (an
    # emit with callback to each of its sessions that is still connected)
    if w.t_alive[t_off]:
        for sid in sorted(off_sids):
            for ns in ('/', '/x', '/c', '/none'):
                if sio.manager.is_connected(sid, ns):
                    try:
                        w.do(sio.emit('fin', 1, to=sid, namespace=ns,
                                      callback=lambda *a: None))
                    except Exception as e:
                        raise Violation('emit-to-offender-raises',
                                        'emit(to=<offender>, callback=...) '
                                        'after its frames: %r' % (e,))
                    labels['offender_addressed_afterwards'] = True
        w.h.drain(w.t[t_off])
    for n, b in enumerate(by):
        w.send(b['t'], wire.EVENT, b['ns'], 50 + n, ['a', 'fin'])
        w.h.settle()
        got = w.recv(b['t'])
        if [(p['type'], p['nsp'], p['id'], p['data']) for p in got] != \
                [(wire.ACK, b['ns'], 50 + n, ['r'])]:
            raise Violation('bystander-not-served-afterwards', repr(got))
    for ns in ('/', '/x', '/c'):
        w.do(sio.emit('room', 1, to='rb', namespace=ns))
    for t in sorted({b['t'] for b in by}):
        got = [p for p in w.recv(t)]
        want = sorted(x['ns'] for x in by if x['t'] == t)
        if sorted(p['nsp'] for p in got) != want or any(
                p['data'] != ['room', 1] for p in got):
            raise Violation('bystander-room-emit-afterwards', repr(got))
    for n, b in enumerate(by):
        ids = cb_ids(b['sid'])
        if len(ids) != 1:
            raise Violation('bystander-callbacks-changed', repr(ids))
        ncb = len(cb_log)
        w.send(b['t'], wire.ACK, b['ns'], ids[0], ['done', n])
        if cb_log[ncb:] != [(b['i'], b['ns'], ('done', n))]:
            raise Violation('bystander-callback-afterwards',
                            repr(cb_log[ncb:]))
    # ... and let go of: the transport of each bystander ends, its disconnect
    # handlers run once each and nothing of it is left
    for t in sorted({b['t'] for b in by}):
        log.clear()
        w.lose(t)
        w.h.settle()
        mine = [b for b in by if b['t'] == t]
        ran = sorted(e[1][0] for e in log if e[0] == 'disconnect')
        if ran != sorted(b['sid'] for b in mine):
            raise Violation('bystander-disconnect-afterwards',
                            'transport %d ended: disconnect handlers ran '
                            'for %r, its clients are %r (%r)'
                            % (t, ran, [b['sid'] for b in mine],
                               w.h.swallowed[:1]))
        for b in mine:
            if sio.manager.is_connected(b['sid'], b['ns']) or \
                    sio.rooms(b['sid'], namespace=b['ns']):
                raise Violation('bystander-disconnect-afterwards',
                                'client %s is still held' % b['sid'])
    if case.get('nsconf') == 'star':
        labels['any_namespace_served'] = True
    return labels


def _is_star(fr, table):
    """The frame is an event literally named '*'."""
    v = fr.get('v')
    if fr['k'] == 'mp':
        return isinstance(v, dict) and isinstance(v.get('data'), list) and \
            v['data'][:1] == ['*']
    return isinstance(v, str) and '["*"' in v


def classify(case, v):
    return v.kind


def extra_engines(tier, seed, acc, deadline):
    """Thorough tier: coverage-guided atheris campaign over the same
    Hypothesis test (fuzz_one_input), 4 parallel libFuzzer processes."""
    if tier != 'thorough':
        return
    import time
    from ..fuzz_driver import campaign
    budget = max(60, min(900, deadline - time.time() - 60))
    for case in campaign(PID, 40000, seed, budget, acc):
        yield case
