"""C11 No residual server state once a client is gone."""
from hypothesis import strategies as st

from .. import graphsize
from .. import strategies as S
from .. import wire
from ..core import Violation
from ..world import World

PID = 'C11'
KNOWN = set()
RULE = ('Generated client generations: each opens 1-3 transports and runs a '
        'generated history (connects to accepted / refused / unserved '
        'namespaces, room changes, events with and without handlers, emits '
        'with callbacks never answered, call() timing out, leave_room / '
        'close_room on personal rooms (own and others\'), a disconnect '
        'handler closing the personal room, application calls on clients '
        'that have already gone, an emit with callback to a room of two '
        'whose first send is suspended while the other member\'s transport '
        'ends, binary events '
        'whose attachments never all arrive, frames of the dying transport '
        '(CONNECT, events, binary headers, DISCONNECT) dispatched while its '
        'disconnect handler is suspended, a transport that ends (CLOSE + '
        'more frames) in the middle of a namespace disconnect, malformed '
        'frames, namespace '
        'disconnects) and then ends every transport by a generated cause; '
        'fault plan: the k-th invocation of a connect / event / disconnect '
        'handler raises. The same generation is repeated 2n times. Oracles: '
        '(1) observable emptiness and empty bookkeeping containers after all '
        'transports ended, (2) metamorphic growth test: object graph '
        'reachable from the server after n generations == after 2n '
        '(tolerance < n objects), (3) a fresh client is served normally '
        'afterwards. Non-trivial: an unfinished binary packet at transport '
        'end, or a raising handler, or an unanswered callback, or a connect '
        'handler that disconnects its own client and returns, or a '
        'transport lost while a connect handler is suspended. The _ending '
        'and _deciding sets are among the compared containers.'
        ' server.disconnect() can have its DISCONNECT send fail (SocketIsClosedError, OSError), followed by the loss.')
ASSUMPTIONS = [
    'single-host managers, and a message-queue manager on the host that owns '
    'every client of the history (a silent channel)',
    'the object-graph walk does not descend into modules, classes, '
    'functions, code, logging or harness objects',
    'bookkeeping containers named in the property anchors (environ, '
    '_binary_packet, manager.rooms/callbacks/pending_disconnect, engine.io '
    'sockets) are compared with a freshly constructed server',
]
BUDGET = {'quick': 4000, 'thorough': 48000}
FLOOR = {'quick': 60, 'thorough': 2000}
NSS = ['/', '/a', '/ref', '/zzz', '/kick']
BAD = ['', '9', '2', '2[', '2[]', '2{}', '3', '31', '31{', '5', '51-', '4',
       '2/a', '2/zzz,["a"]', '0/a,{', 'x', '51-["a",{"_placeholder":true,'
       '"num":5}]', '61-/a,7[{"_placeholder":true,"num":0}]', '2"a"',
       '2[1]', '1/zzz']


def strategy(tier):
    ci = st.integers(0, 5)
    tt = st.integers(0, 2)
    arg = S.tree_st(with_bytes=True, max_leaves=3)
    op = st.one_of(
        st.fixed_dictionaries({'op': st.just('connect'), 't': tt,
                               'ns': st.integers(0, 4)}),
        # the transport is lost while the connect handler of one more
        # namespace is still deciding; the handler then accepts
        st.fixed_dictionaries({'op': st.just('lose_in_connect'), 't': tt,
                               'ns': st.integers(0, 1)}),
        st.fixed_dictionaries({'op': st.just('connect'), 't': tt,
                               'ns': st.integers(0, 1)}),
        st.fixed_dictionaries({'op': st.just('enter'), 'c': ci,
                               'room': st.sampled_from(['r1', 'r2', 3])}),
        st.fixed_dictionaries({'op': st.just('leave'), 'c': ci,
                               'room': st.sampled_from(['r1', 'r2', 3,
                                                        'SID'])}),
        st.fixed_dictionaries({'op': st.just('close'), 'c': ci,
                               'room': st.sampled_from(['r1', 'SID', 'SID',
                                                        'OTHER'])}),
        st.fixed_dictionaries({'op': st.just('event'), 'c': ci,
                               'name': st.sampled_from(['a', 'a', 'z']),
                               'id': st.one_of(st.none(), st.integers(0, 9)),
                               'args': st.lists(arg, max_size=2)}),
        st.fixed_dictionaries({'op': st.just('emit_cb'), 'c': ci}),
        st.fixed_dictionaries({'op': st.just('call'), 'c': ci}),
        st.fixed_dictionaries({'op': st.just('partial'), 't': tt,
                               'ns': st.integers(0, 1),
                               'natt': st.integers(2, 3),
                               'ack': st.booleans()}),
        st.fixed_dictionaries({'op': st.just('malformed'), 't': tt,
                               'text': st.one_of(st.sampled_from(BAD),
                                                 S.text_st(max_size=6))}),
        st.fixed_dictionaries({'op': st.just('cdisc'), 'c': ci}),
        # server.disconnect() whose DISCONNECT packet cannot be sent: the
        # connection is being closed, or the transport's send fails
        st.fixed_dictionaries({'op': st.just('sdisc'), 'c': ci,
                               'send_fails': st.sampled_from(['closed',
                                                              'oserror'])}),
        st.fixed_dictionaries({'op': st.just('sdisc'), 'c': ci}),
        # one polling payload: engine.io CLOSE, then more socket.io frames
        st.fixed_dictionaries({'op': st.just('close_then'), 't': tt,
                               'frames': st.lists(st.sampled_from([
                                   '0', '0/a,', '0/ref,', '2["a",1]',
                                   '21["a"]', '1', '1/a,',
                                   '51-["a",{"_placeholder":true,"num":0}]',
                                   '61-/a,3[{"_placeholder":true,"num":0}]']),
                                   min_size=1, max_size=3)}),
        # asyncio: an emit with callback to a room of two; the send to the
        # first member is suspended, meanwhile the other member's transport
        # ends, then the send completes
        st.fixed_dictionaries({'op': st.just('group_cb_death'), 'c': ci,
                               'd': ci}),
        # asyncio: the transport is lost, the application's disconnect
        # handler is suspended, and frames that the dying transport had
        # still sent are dispatched meanwhile
        st.fixed_dictionaries({'op': st.just('lose_mid'), 't': tt,
                               'frames': st.lists(st.sampled_from([
                                   '0', '0/a,', '2["a",1]', '21["a"]',
                                   '1', '1/a,', b'late attachment',
                                   '51-["a",{"_placeholder":true,"num":0}]',
                                   '52-/a,["a",{"_placeholder":true,"num":0},'
                                   '{"_placeholder":true,"num":1}]',
                                   '61-/a,3[{"_placeholder":true,"num":0}]']),
                                   min_size=1, max_size=3)}),
        # asyncio: a namespace is being left (client DISCONNECT or
        # server.disconnect(), its handler suspended) when the transport
        # ends with one more payload: engine.io CLOSE, then more frames
        st.fixed_dictionaries({'op': st.just('disc_mid'), 'c': ci,
                               'how': st.sampled_from(['cdisc', 'sdisc']),
                               'frames': st.lists(st.sampled_from([
                                   '0', '0/a,', '2["a",1]', '1', '1/a,',
                                   '51-["a",{"_placeholder":true,"num":0}]',
                                   '51-/a,["a",{"_placeholder":true,"num":0}]',
                                   '61-/a,3[{"_placeholder":true,"num":0}]']),
                                   min_size=1, max_size=3)}),
        # the application acts on a client of this generation that has
        # already gone (a handler that was suspended meanwhile)
        st.fixed_dictionaries({'op': st.just('late'), 'c': ci,
                               'what': st.sampled_from(
                                   ['enter', 'leave', 'emit_cb', 'session',
                                    'disconnect', 'close'])}),
    )
    fault = st.one_of(
        st.none(),
        st.fixed_dictionaries({'kind': st.sampled_from(
            ['connect', 'event', 'disconnect']), 'k': st.integers(0, 3),
            # 'cancel': the (coroutine) handler ends with CancelledError
            'exc': st.sampled_from(['raise', 'raise', 'cancel'])}))
    return st.fixed_dictionaries({
        'aio': st.booleans(),
        'async_handlers': st.booleans(),
        'always_connect': st.booleans(),
        # the application's disconnect handler closes the client's personal
        # room itself
        'disc_closes_own': st.sampled_from([False, False, True]),
        # the client manager: the default one, or a message-queue manager on
        # the host that owns all the clients
        'manager': st.sampled_from(['plain', 'plain', 'queue']),
        'ntrans': st.integers(1, 3),
        'fault': fault,
        'ops': st.lists(op, min_size=3, max_size=14 if tier == 'quick'
                        else 30),
        'ends': st.lists(st.integers(0, 3), min_size=3, max_size=3)})


KF_QUEUE_CB = 'queue-manager-keeps-callback-of-departed-client'


def _mk_world(case):
    extra = {}
    if case.get('manager') == 'queue':
        from .. import core
        socketio = core.bootstrap()
        from socketio.async_pubsub_manager import AsyncPubSubManager
        from socketio.pubsub_manager import PubSubManager
        base = AsyncPubSubManager if case['aio'] else PubSubManager
        plain = socketio.AsyncManager if case['aio'] else socketio.Manager

        class QuietQueueManager(base):
            """The host that owns every client of the history; nothing else
            is on its channel."""
            def initialize(self):
                plain.initialize(self)
            if case['aio']:
                async def _publish(self, data):
                    pass
            else:
                def _publish(self, data):
                    pass
        extra['client_manager'] = QuietQueueManager()
    w = World(aio=case['aio'], async_handlers=case['async_handlers'],
              always_connect=case.get('always_connect', False), **extra)
    sio = w.sio
    st_ = {'counts': {}, 'fault': case['fault']}

    def hit(kind):
        n = st_['counts'].get(kind, 0)
        st_['counts'][kind] = n + 1
        f = st_['fault']
        if f and f['kind'] == kind and f['k'] == n:
            if f.get('exc') == 'cancel' and case['aio']:
                import asyncio
                raise asyncio.CancelledError()
            raise RuntimeError('injected fault in %s handler' % kind)

    for ns in ('/', '/a'):
        if case['aio']:
            async def on_connect(sid, environ, auth=None):
                g = st_.get('cgate')
                if g is not None and not g.done() and \
                        not getattr(g, 'taken', False):
                    g.taken = True
                    await g
                hit('connect')
        else:
            def on_connect(sid, environ, auth=None):
                hit('connect')

        if case['aio']:
            async def on_disconnect(sid, reason, ns=ns):
                g = st_.get('gate')
                if g is not None and not g.done() and \
                        not getattr(g, 'taken', False):
                    g.taken = True      # (one handler waits, not all)
                    await g
                if case.get('disc_closes_own'):
                    await sio.close_room(sid, namespace=ns)
                hit('disconnect')
        else:
            def on_disconnect(sid, reason, ns=ns):
                if case.get('disc_closes_own'):
                    sio.close_room(sid, namespace=ns)
                hit('disconnect')

        if case['aio']:
            async def on_a(sid, *args):
                hit('event')
                return 'ok'
        else:
            def on_a(sid, *args):
                hit('event')
                return 'ok'
        sio.on('connect', on_connect, namespace=ns)
        sio.on('disconnect', on_disconnect, namespace=ns)
        sio.on('a', on_a, namespace=ns)

    def refuse(sid, environ, auth=None):
        hit('connect')
        return False
    sio.on('connect', refuse, namespace='/ref')

    # a connect handler that ends the connection it is being asked about
    # itself, and then returns as if it had accepted it
    if case['aio']:
        async def kick(sid, environ, auth=None):
            hit('connect')
            await sio.disconnect(sid, namespace='/kick')
    else:
        def kick(sid, environ, auth=None):
            hit('connect')
            sio.disconnect(sid, namespace='/kick')
    sio.on('connect', kick, namespace='/kick')
    return w, st_


def _generation(case, w, st_):
    """One client generation; returns label flags."""
    import socketio
    sio = w.sio
    flags = set()
    st_['counts'] = {}
    t0 = len(w.t)
    c0 = len(w.clients)
    for _ in range(case['ntrans']):
        w.open()
    reasons = [w.h.reason.TRANSPORT_ERROR, w.h.reason.TRANSPORT_CLOSE,
               w.h.reason.PING_TIMEOUT, w.h.reason.CLIENT_DISCONNECT]

    def live():
        return [i for i in w.live() if i >= c0]

    for op in case['ops']:
        k = op['op']
        if 't' in op:
            t = t0 + op['t'] % case['ntrans']
        if k == 'connect':
            ns = NSS[op['ns']]
            if w.client_on(t, ns) is None:
                ci, pkts = w.connect(t, ns)
                if ns == '/kick':
                    flags.add('kicked_by_connect_handler')
                if ci is not None and (not any(
                        p['type'] == wire.CONNECT for p in pkts) or any(
                        p['type'] == wire.DISCONNECT for p in pkts)):
                    w.mark_dead(ci)     # refused (always_connect: CONNECT
                    #                     followed by DISCONNECT)
                    flags.add('refused_after_connect')
            continue
        if k == 'partial':
            ns = NSS[op['ns']]
            data = ['a'] + [b'x'] * op['natt']
            fr = wire.frames(wire.ACK if op['ack'] else wire.EVENT, ns,
                             3, data[1:] if op['ack'] else data)
            for f in fr[:-1]:
                w.send_raw(t, f)
            flags.add('partial_binary')
            continue
        if k == 'malformed':
            w.send_raw(t, op['text'])
            continue
        if k == 'close_then':
            if w.t_alive[t]:
                w.close_then(t, op['frames'])
                flags.add('frames_after_close')
            continue
        if k == 'lose_in_connect':
            ns = NSS[op['ns']]
            if not w.t_alive[t]:
                continue
            if not case['aio'] or w.client_on(t, ns) is not None:
                w.lose(t, reasons[0])
                continue
            loop = w.h.loop
            eio_sid = w.t[t]
            sock = w.h.eio.sockets[eio_sid]
            P = w.h.eio_packet
            st_['cgate'] = loop.create_future()
            ctask = loop.spawn(sock.receive(P.Packet(
                P.MESSAGE, wire.frames(wire.CONNECT, ns)[0])))
            loop.run_until_idle()
            parked = not ctask.done()
            w.lose(t, reasons[0])
            if not st_['cgate'].done():
                st_['cgate'].set_result(None)
            loop.run_until_idle()
            st_['cgate'] = None
            if not ctask.done():
                raise Violation('connect-never-finishes', '')
            ctask.exception()
            w.h.swallowed[:] = []
            if parked:
                flags.add('transport_lost_while_connect_handler_decides')
            w.h.settle()
            continue
        if k == 'lose_mid':
            if not w.t_alive[t]:
                continue
            if not case['aio'] or not any(
                    c2['alive'] and c2['t'] == t for c2 in w.clients):
                w.lose(t, reasons[0])
                continue
            loop = w.h.loop
            eio_sid = w.t[t]
            sock = w.h.eio.sockets[eio_sid]
            st_['gate'] = loop.create_future()
            task = loop.spawn(sock.close(wait=False, abort=True,
                                         reason=reasons[0]))
            loop.run_until_idle()
            parked = not task.done()
            if not parked and not st_['gate'].done():
                st_['gate'].set_result(None)
            P = w.h.eio_packet
            for f in op['frames']:
                ft = loop.spawn(sock.receive(P.Packet(P.MESSAGE, f)))
                loop.run_until_idle()
                if ft.done():
                    ft.exception()      # engine.io would contain it
            if not st_['gate'].done():
                st_['gate'].set_result(None)
            loop.run_until_idle()
            st_['gate'] = None
            if not task.done():
                raise Violation('transport-loss-never-finishes', '')
            task.exception()
            w.h.swallowed[:] = []
            w.t_alive[t] = False
            for c2 in w.clients:
                if c2['t'] == t:
                    c2['alive'] = False
            if sock.closed and eio_sid in w.h.eio.sockets:
                del w.h.eio.sockets[eio_sid]
            if parked:
                flags.add('frames_during_suspended_disconnect')
            w.h.settle()
            continue
        if k == 'late':
            gone = [i for i in range(c0, len(w.clients))
                    if not w.clients[i]['alive']]
            if not gone:
                continue
            g = w.clients[gone[op['c'] % len(gone)]]
            what = op['what']
            try:
                if what == 'enter':
                    w.do(sio.enter_room(g['sid'], 'late', namespace=g['ns']))
                elif what == 'leave':
                    w.do(sio.leave_room(g['sid'], 'r1', namespace=g['ns']))
                elif what == 'emit_cb':
                    w.do(sio.emit('q', 1, to=g['sid'], namespace=g['ns'],
                                  callback=lambda *a: None))
                elif what == 'session':
                    w.do(sio.save_session(g['sid'], {'x': 1},
                                          namespace=g['ns']))
                elif what == 'close':
                    w.do(sio.close_room(g['sid'], namespace=g['ns']))
                else:
                    w.do(sio.disconnect(g['sid'], namespace=g['ns']))
            except (KeyError, ValueError):
                pass    # acting on a departed client may be refused
            flags.add('late_' + what)
            w.h.settle()
            continue
        lv = live()
        if not lv:
            continue
        ci = lv[op['c'] % len(lv)]
        c = w.clients[ci]
        if k == 'disc_mid':
            if not case['aio'] or not w.t_alive[c['t']]:
                continue
            loop = w.h.loop
            P = w.h.eio_packet
            sock = w.h.eio.sockets[w.t[c['t']]]
            st_['gate'] = loop.create_future()
            if op['how'] == 'cdisc':
                fr = wire.frames(wire.DISCONNECT, c['ns'])
                task = loop.spawn(sock.receive(P.Packet(P.MESSAGE, fr[0])))
            else:
                task = loop.spawn(sio.disconnect(c['sid'],
                                                 namespace=c['ns']))
            loop.run_until_idle()
            parked = not task.done()
            if not parked:
                st_['gate'].set_result(None)
            w.close_then(c['t'], op['frames'])
            if parked:
                st_['gate'].set_result(None)
            loop.run_until_idle()
            st_['gate'] = None
            if not task.done():
                raise Violation('namespace-disconnect-never-finishes', '')
            task.exception()
            w.h.swallowed[:] = []
            if parked:
                flags.add('transport_ends_during_namespace_disconnect')
            flags.add('frames_after_close')
            w.h.settle()
            continue
        if k == 'group_cb_death':
            if not case['aio'] or case.get('manager') == 'queue':
                # (a queue manager files a group callback under the room's
                # name: unsupported use, nothing to judge)
                continue
            peers = [i for i in lv if i != ci and
                     w.clients[i]['ns'] == c['ns'] and
                     w.clients[i]['t'] != c['t']]
            if not peers:
                continue
            d = w.clients[peers[op['d'] % len(peers)]]
            w.do(sio.enter_room(c['sid'], 'grp', namespace=c['ns']))
            w.do(sio.enter_room(d['sid'], 'grp', namespace=c['ns']))
            loop = w.h.loop
            parked = []
            real_send = sio.eio.send_packet

            async def gated(sid_, pkt):
                if not parked:
                    fut = loop.create_future()
                    parked.append(fut)
                    await fut
                return await real_send(sid_, pkt)
            sio.eio.send_packet = gated
            try:
                task = loop.spawn(sio.emit('q', 1, to='grp',
                                           namespace=c['ns'],
                                           callback=lambda *a: None))
                loop.run_until_idle()
                if w.t_alive[d['t']]:
                    w.lose(d['t'], reasons[0])
                if parked and not parked[0].done():
                    parked[0].set_result(None)
                loop.run_until_idle()
            finally:
                sio.eio.send_packet = real_send
            if not task.done():
                raise Violation('emit-never-finishes', '')
            flags.add('unanswered_callback')
            flags.add('recipient_died_during_callback_emit')
            w.h.settle()
            continue
        if k == 'enter':
            w.do(sio.enter_room(c['sid'], op['room'], namespace=c['ns']))
        elif k == 'leave':
            room = c['sid'] if op['room'] == 'SID' else op['room']
            w.do(sio.leave_room(c['sid'], room, namespace=c['ns']))
            if op['room'] == 'SID':
                flags.add('left_personal_room')
        elif k == 'close':
            room = op['room']
            if room == 'SID':
                room = c['sid']
                flags.add('left_personal_room')
            elif room == 'OTHER':
                # the personal room of another live client
                o = w.clients[lv[(op['c'] + 1) % len(lv)]]
                if o['ns'] != c['ns']:
                    continue
                room = o['sid']
                flags.add('left_personal_room')
            w.do(sio.close_room(room, namespace=c['ns']))
        elif k == 'event':
            w.send(c['t'], wire.EVENT, c['ns'], op['id'],
                   [op['name']] + list(op['args']))
        elif k == 'emit_cb':
            w.do(sio.emit('q', 1, to=c['sid'], namespace=c['ns'],
                          callback=lambda *a: None))
            flags.add('unanswered_callback')
        elif k == 'call':
            if case['async_handlers']:
                try:
                    w.do(sio.call('q', 1, to=c['sid'], namespace=c['ns'],
                                  timeout=2))
                except socketio.exceptions.TimeoutError:
                    pass
                flags.add('unanswered_callback')
        elif k == 'cdisc':
            w.send(c['t'], wire.DISCONNECT, c['ns'])
            w.mark_dead(ci)
        elif k == 'sdisc':
            real = None
            if op.get('send_fails'):
                import engineio
                exc = engineio.exceptions.SocketIsClosedError() \
                    if op['send_fails'] == 'closed' else \
                    OSError('send failed')
                real = (sio.eio.send, sio.eio.send_packet)
                dying = w.t[c['t']]

                def mk_bad(orig):
                    if case['aio']:
                        async def bad(eio_sid, *a, **kw):
                            if eio_sid == dying:
                                raise exc
                            return await orig(eio_sid, *a, **kw)
                    else:
                        def bad(eio_sid, *a, **kw):
                            if eio_sid == dying:
                                raise exc
                            return orig(eio_sid, *a, **kw)
                    return bad
                sio.eio.send, sio.eio.send_packet = map(mk_bad, real)
                flags.add('server_disconnect_send_fails')
            try:
                w.do(sio.disconnect(c['sid'], namespace=c['ns']))
            except RuntimeError as e:
                if 'injected fault' not in str(e):
                    raise
            except OSError:
                pass        # (what the application is told is not judged)
            finally:
                if real is not None:
                    sio.eio.send, sio.eio.send_packet = real
            w.mark_dead(ci)
            if real is not None and w.t_alive[c['t']]:
                # a transport whose send fails is on its way out
                w.h.settle()
                w.lose(c['t'], reasons[0])
        w.h.settle()
    for i in range(case['ntrans']):
        t = t0 + i
        if w.t_alive[t]:
            w.lose(t, reasons[case['ends'][i]])
        w.h.drain(w.t[t])
    if case['fault'] and st_['counts'].get(case['fault']['kind'], 0) > \
            case['fault']['k']:
        flags.add('fault_' + case['fault']['kind'])
    return flags


def _check_empty(w, what, tolerate_queue_callbacks=False):
    sio = w.sio
    m = sio.manager
    ns_left = list(m.get_namespaces())
    for ns in ns_left:
        for room in list(m.rooms.get(ns, {})):
            parts = list(m.rooms[ns][room])
            if parts:
                raise Violation('participants-left', '%s: %s %r: %r'
                                % (what, ns, room, parts))
    if ns_left:
        raise Violation('namespaces-left', '%s: %r (rooms %r)'
                        % (what, ns_left, {n: list(m.rooms[n])
                                           for n in ns_left}))
    for c in w.clients:
        sid, ns = c['sid'], c['ns']
        if m.is_connected(sid, ns):
            raise Violation('still-connected', '%s: sid %s' % (what, sid))
        if sio.rooms(sid, namespace=ns):
            raise Violation('rooms-left', '%s: sid %s %r'
                            % (what, sid, sio.rooms(sid, namespace=ns)))
        if sio.get_environ(sid, namespace=ns) is not None:
            raise Violation('environ-left', '%s: sid %s' % (what, sid))
    cont = {'environ': sio.environ, '_binary_packet': sio._binary_packet,
            'manager.rooms': m.rooms, 'manager.callbacks': m.callbacks,
            'manager.pending_disconnect': m.pending_disconnect,
            'eio.sockets': sio.eio.sockets,
            '_ending': getattr(sio, '_ending', ()),
            '_deciding': getattr(sio, '_deciding', ())}
    for name, v in cont.items():
        if len(v):
            if name == 'manager.callbacks' and tolerate_queue_callbacks:
                raise Violation(KF_QUEUE_CB, '%s: an emit with callback to '
                                'a client that had already gone left %r'
                                % (what, list(v.items())[:2]))
            raise Violation('container-not-empty:' + name, '%s: %r' % (
                what, list(v.items() if hasattr(v, 'items') else v)[:3]))


def check_case(case):
    n = case.get('n', 3)
    w, st_ = _mk_world(case)
    try:
        labels = {'aio': case['aio'], 'nontrivial': False}
        flags = _generation(case, w, st_)       # warm-up
        if 'partial_binary' in flags and KF_BINARY in KNOWN:
            labels['kf:' + KF_BINARY] = True
        queue_late = case.get('manager') == 'queue' and \
            'late_emit_cb' in flags
        try:
            _check_empty(w, 'after generation 1', queue_late)
        except Violation as v:
            if v.kind == KF_QUEUE_CB and KF_QUEUE_CB in KNOWN:
                labels['kf:' + KF_QUEUE_CB] = True
                return labels
            raise
        s0 = graphsize.size(w.sio)
        for _ in range(n):
            _generation(case, w, st_)
        _check_empty(w, 'after %d generations' % (n + 1))
        s1 = graphsize.size(w.sio)
        for _ in range(n):
            _generation(case, w, st_)
        _check_empty(w, 'after %d generations' % (2 * n + 1))
        s2 = graphsize.size(w.sio)
        if s2 - s1 >= n or s1 - s0 >= n:
            raise Violation('object-graph-grows',
                            'reachable objects: %d after 1, %d after %d, %d '
                            'after %d generations' % (s0, s1, n + 1, s2,
                                                      2 * n + 1))
        # (3) a fresh client is served like the first one
        st_['fault'] = None
        t = w.open()
        ci, pkts = w.connect(t, '/')
        if ci is None:
            raise Violation('fresh-client-refused', repr(pkts))
        sid = w.clients[ci]['sid']
        w.send(t, wire.EVENT, '/', 5, ['a', 1])
        w.h.settle()
        got = w.recv(t)
        if [(p['type'], p['id'], p['data']) for p in got] != \
                [(wire.ACK, 5, ['ok'])]:
            raise Violation('fresh-client-not-served', repr(got))
        if set(w.sio.rooms(sid)) != {sid}:
            raise Violation('fresh-client-rooms', repr(w.sio.rooms(sid)))
        for f in flags:
            labels[f] = True
        labels['nontrivial'] = bool(flags & {
            'partial_binary', 'unanswered_callback', 'fault_connect',
            'fault_event', 'fault_disconnect', 'left_personal_room',
            'late_enter', 'late_emit_cb', 'late_session',
            'frames_after_close', 'kicked_by_connect_handler',
            'server_disconnect_send_fails',
            'transport_lost_while_connect_handler_decides'})
        if case.get('disc_closes_own'):
            labels['disc_closes_own'] = True
        return labels
    finally:
        w.close()


KF_BINARY = 'binary-packet-survives-transport'


def classify(case, v):
    return v.kind
