"""C05 Incoming events: one handler invocation, one matching ACK to the
sender only."""
import copy

from hypothesis import strategies as st

from .. import strategies as S
from .. import wire
from ..case import strict_eq
from ..core import Violation
from ..world import World

PID = 'C05'
RULE = ('Generated sequences of EVENT/BINARY_EVENT packets (ids None, 0, '
        'arbitrary and deliberately colliding across clients; arguments any '
        'JSON+bytes trees; frames of different transports interleaved between '
        'a binary header and its attachments) from several clients on several '
        'namespaces, with connects, disconnects and events on unconnected '
        'namespaces in between, against a server with function handlers, a '
        'catch-all and a class-based namespace (optionally also a function '
        'handler on the catch-all namespace for an event nobody sends); '
        'a sender disconnecting right behind its events, before their '
        'background handlers have run; a binary event with an argument of '
        'the placeholder shape and an impossible index, followed by an '
        'ordinary event; handlers that answer with the very '
        'object (a cached list / dict) they returned for an earlier event; '
        'async_handlers on/off (on: '
        'background tasks collected and run in a generated order); both '
        'servers. Oracle: exactly one invocation (right target, sender sid, '
        'args) per event on a connected namespace, none otherwise; exactly '
        'one ACK (same transport, namespace, id, packed return value, binary '
        'iff bytes) iff id given and somebody responsible; arrival order when '
        'async_handlers is off. Non-trivial: two clients with the same id '
        'outstanding in one burst, or a binary event interleaved with another '
        "transport's frames, or a tuple/bytes return value, or events sent "
        'by a client while its own disconnect is in progress (re-entrant on '
        'the threaded server, suspended disconnect handler on the asyncio '
        'server), or events of a connected client while the CONNECT of its '
        'transport for a sibling namespace is still being decided by a '
        'suspended (asyncio) / re-entered (threads) connect handler.'
        ' always_connect is part of the configuration: the connecting client itself then sends events while its connect handler runs.')
ASSUMPTIONS = [
    'handlers are inline harness functions that do not emit',
    'attachments are interleaved with nothing else from the same transport',
    'event names are ordinary (not connect/disconnect/*), see C13 for those',
]
BUDGET = {'quick': 3200, 'thorough': 64000}
FLOOR = {'quick': 150, 'thorough': 5000}

NSS = ['/', '/x', '/c', '/none']   # '/none' is served but has no handlers
EVENTS = ['a', 'b', 'z', 'my event']


def strategy(tier):
    big = tier == 'thorough'
    arg = S.tree_st(with_bytes=True, bits64=False, max_leaves=6)
    ret = st.one_of(
        st.none(), arg, st.lists(arg, max_size=3).map(tuple),
        st.sampled_from([(), (None,), 0, '', False, [], {}, b'', (b'x', 1),
                         {'k': [b'deep']}]))
    pid = st.one_of(st.none(), st.sampled_from([0, 1, 1, 2, 7]),
                    st.integers(0, 2**40))
    ev = st.fixed_dictionaries({
        'c': st.integers(0, 7), 'name': st.sampled_from(EVENTS),
        'id': pid, 'args': st.lists(arg, max_size=3), 'ret': ret,
        # sent as a BINARY_EVENT that announces zero attachments (legal on
        # the wire, the reference parser delivers it at once)
        'bin0': st.sampled_from([False, False, False, True]),
        # the handler answers with the very object (a cached list / dict of
        # the application) that it returned for an earlier event
        'reuse': st.sampled_from([False, False, True]),
        'stray_ns': st.one_of(st.none(), st.none(), st.integers(0, 3))})
    op = st.one_of(
        st.fixed_dictionaries({'op': st.just('burst'),
                               'events': st.lists(ev, min_size=1, max_size=4),
                               'order': st.lists(st.integers(0, 7),
                                                 max_size=12),
                               'settle': st.lists(st.integers(0, 7),
                                                  max_size=6)}),
        st.fixed_dictionaries({'op': st.just('burst'),
                               'events': st.lists(ev, min_size=1, max_size=4),
                               'order': st.lists(st.integers(0, 7),
                                                 max_size=12),
                               'settle': st.lists(st.integers(0, 7),
                                                  max_size=6)}),
        # ... and one of the senders disconnects right behind its events,
        # before any background handler has run
        st.fixed_dictionaries({'op': st.just('burst'),
                               'events': st.lists(ev, min_size=1, max_size=3),
                               'order': st.lists(st.integers(0, 7),
                                                 max_size=8),
                               'settle': st.lists(st.integers(0, 7),
                                                  max_size=6),
                               'then_disc': st.integers(0, 3)}),
        st.fixed_dictionaries({'op': st.just('connect'),
                               't': st.integers(0, 3),
                               'ns': st.integers(0, 3)}),
        st.fixed_dictionaries({'op': st.just('cdisc'), 'c': st.integers(0, 7)}),
        # an event (text or binary) whose handler raises, then an ordinary
        # event from the same client: the second one must be handled and
        # acknowledged as usual
        st.fixed_dictionaries({'op': st.just('fault'),
                               'c': st.integers(0, 7),
                               'binary': st.booleans(),
                               'exc': st.sampled_from(['__raise__',
                                                       '__raise_type__',
                                                       '__raise_key__']),
                               'id': st.one_of(st.none(), st.integers(0, 5)),
                               'id2': st.integers(0, 5)}),
        # a binary event one of whose JSON arguments has the shape of an
        # attachment placeholder with an index that no attachment has (the
        # protocol's reserved shape: what becomes of this event is not
        # judged), then an ordinary event from the same client: that one is
        # handled and acknowledged as usual
        st.fixed_dictionaries({'op': st.just('lookalike'),
                               'c': st.integers(0, 7),
                               'num': st.sampled_from([7, 'seven', -9]),
                               'id2': st.integers(0, 5)}),
        # a transport that already has a client on one namespace asks for a
        # second one, whose connect handler takes its time; the client that
        # is connected goes on sending events meanwhile
        st.fixed_dictionaries({'op': st.just('cwindow'),
                               'c': st.integers(0, 7),
                               'ns': st.integers(0, 3),
                               'n': st.integers(1, 3),
                               'ids': st.booleans()}),
        st.fixed_dictionaries({'op': st.just('window'),
                               'c': st.integers(0, 7),
                               'how': st.sampled_from(['cdisc', 'sdisc']),
                               'late': st.lists(ev, min_size=1, max_size=2)}),
    )
    return st.fixed_dictionaries({
        'aio': st.booleans(), 'async_handlers': st.booleans(),
        'coro': st.booleans(),
        # (with always_connect a client is connected as soon as its CONNECT
        # has been answered, i.e. before its connect handler has decided)
        'always_connect': st.sampled_from([False, False, True]),
        # the catch-all namespace has a function handler for an event no
        # client ever sends (it is responsible for nothing here)
        'star_other': st.booleans(),
        'init': st.lists(st.tuples(st.integers(0, 3), st.integers(0, 3)),
                         min_size=2, max_size=6),
        'ops': st.lists(op, min_size=1, max_size=25 if not big else 60)})


def responsible(ns, name):
    """(kind, prepend_event) of the target for an ordinary event."""
    if ns == '/':
        return ('fn:/:' + name, False) if name in ('a', 'b', 'my event') \
            else None
    if ns == '/x':
        if name == 'a':
            return ('fn:/x:a', False)
        return ('catchall:/x', True)
    if ns == '/c':
        return ('class:/c', False)
    return None


def check_case(case):
    w = World(aio=case['aio'], bg='collect', namespaces=NSS,
              async_handlers=case['async_handlers'],
              always_connect=bool(case.get('always_connect')))
    try:
        return _run(case, w)
    finally:
        w.close()


def _run(case, w):
    import socketio
    sio = w.sio
    aio = case['aio']
    coro = case.get('coro') and aio
    log = []        # (kind, args tuple)
    rets = {}       # tag -> return value
    faults = {}     # tag -> kind of exception the handler raises

    def result(args):
        # the tag is the first event argument
        for a in args:
            if isinstance(a, dict) and set(a) == {'__tag'}:
                r_ = faults.get(a['__tag'])
                if r_ is not None:
                    raise {'__raise_type__': TypeError,
                           '__raise_key__': KeyError}.get(
                               r_, RuntimeError)('application handler fault')
                return rets[a['__tag']]
        return None

    def mk(kind):
        if coro:
            async def h(*args):
                log.append((kind, args))
                return result(args)
        else:
            def h(*args):
                log.append((kind, args))
                return result(args)
        return h

    for name in ('a', 'b', 'my event'):
        sio.on(name, mk('fn:/:' + name), namespace='/')
    sio.on('a', mk('fn:/x:a'), namespace='/x')
    sio.on('*', mk('catchall:/x'), namespace='/x')
    if case.get('star_other'):
        sio.on('never sent', mk('fn:*:never sent'), namespace='*')

    base = socketio.AsyncNamespace if aio else socketio.Namespace

    class NS(base):
        pass
    ns_obj = NS('/c')
    # instance attributes, so that "self" is not part of the logged args
    for name in ('a', 'b'):
        setattr(ns_obj, 'on_' + name, mk('class:/c:' + name))
    sio.register_namespace(ns_obj)

    window = {}     # sid -> frames the client still sends while its
    #                  disconnect is in progress
    wgates = {}

    def late_frames(sid):
        eio_sid, frames = window.pop(sid)
        for f in frames:
            w.h.feed(eio_sid, f, settle=False)
    if coro:
        async def on_disc(sid, reason):
            if sid in window:
                wgates[sid] = w.h.loop.create_future()
                await wgates[sid]
    else:
        def on_disc(sid, reason):
            if sid in window and not aio:
                late_frames(sid)        # re-entrant: "another thread"
    for ns_ in ('/', '/x', '/none'):
        sio.on('disconnect', on_disc, namespace=ns_)
    ns_obj.on_disconnect = on_disc

    cwin = {}       # namespace whose connect handler is deciding ->
    #                  (eio sid, frames the transport sends meanwhile)
    cgates = {}

    def mk_conn(ns_):
        if coro:
            async def on_conn(sid, environ, auth=None):
                if ns_ in cwin:
                    cgates[ns_] = w.h.loop.create_future()
                    await cgates[ns_]
        else:
            def on_conn(sid, environ, auth=None):
                if ns_ in cwin and not aio:
                    eio_sid, frames = cwin.pop(ns_)
                    for f in frames:        # re-entrant: "another thread"
                        w.h.feed(eio_sid, f, settle=False)
        return on_conn
    for ns_ in ('/', '/x', '/none'):
        sio.on('connect', mk_conn(ns_), namespace=ns_)
    ns_obj.on_connect = mk_conn('/c')

    for _ in range(4):
        w.open()
    for t, n in case['init']:
        if w.client_on(t, NSS[n]) is None:
            w.connect(t, NSS[n])
    labels = {'aio': aio, 'async_handlers': case['async_handlers'],
              'nontrivial': False}
    tag = 0
    cached = []     # [the application's object, its value when first seen]
    for step, op in enumerate(case['ops']):
        k = op['op']
        if k == 'connect':
            t, ns = op['t'], NSS[op['ns']]
            if w.client_on(t, ns) is None:
                w.connect(t, ns)
            continue
        if k == 'cdisc':
            lv = w.live()
            if lv:
                ci = lv[op['c'] % len(lv)]
                c = w.clients[ci]
                w.send(c['t'], wire.DISCONNECT, c['ns'])
                w.mark_dead(ci)
            w.h.settle()
            w.recv_all()
            continue
        if k == 'fault':
            lv = w.live()
            if not lv:
                continue
            ci = lv[op['c'] % len(lv)]
            c = w.clients[ci]
            if responsible(c['ns'], 'a') is None:
                continue
            log.clear()
            w.recv_all()
            tag += 1
            faults[tag] = op.get('exc', '__raise__')
            rets[tag] = None
            t1 = tag
            w.send(c['t'], wire.EVENT, c['ns'], op['id'],
                   ['a', {'__tag': tag}] + ([b'bin', {'k': b'x'}]
                                            if op['binary'] else ['txt']))
            w.h.settle()
            tag += 1
            rets[tag] = 'after-fault'
            w.send(c['t'], wire.EVENT, c['ns'], op['id2'],
                   ['a', {'__tag': tag}])
            w.h.settle()
            w.h.swallowed[:] = []
            w.h.bg_errors[:] = [e for e in w.h.bg_errors if
                                'application handler fault' not in str(e)]
            tags = [a['__tag'] for kind, args in log for a in args
                    if isinstance(a, dict) and set(a) == {'__tag'}]
            if tags != [t1, tag]:
                raise Violation('event-lost-after-handler-fault',
                                'handled tags %r, expected %r (binary=%s)'
                                % (tags, [t1, tag], op['binary']))
            got = w.recv(c['t'])
            acks = [(p['nsp'], p['id'], p['data']) for p in got]
            if acks != [(c['ns'], op['id2'], ['after-fault'])]:
                raise Violation('ack-after-handler-fault',
                                'acks %r' % (acks,))
            labels['handler_fault'] = True
            labels['nontrivial'] = True
            log.clear()
            continue
        if k == 'lookalike':
            lv = w.live()
            if not lv:
                continue
            ci = lv[op['c'] % len(lv)]
            c = w.clients[ci]
            if responsible(c['ns'], 'a') is None:
                continue
            w.recv_all()
            for f in wire.frames(wire.EVENT, c['ns'], None,
                                 ['a', {'_placeholder': True,
                                        'num': op['num']}, b'x']):
                w.send_raw(c['t'], f)
            w.h.settle()
            w.h.swallowed[:] = []
            w.h.bg_errors[:] = []
            w.recv_all()
            log.clear()
            tag += 1
            rets[tag] = 'after-lookalike'
            w.send(c['t'], wire.EVENT, c['ns'], op['id2'],
                   ['a', {'__tag': tag}])
            w.h.settle()
            tags = [a['__tag'] for kind, args in log for a in args
                    if isinstance(a, dict) and set(a) == {'__tag'}]
            if tags != [tag]:
                raise Violation('event-lost-after-placeholder-lookalike',
                                'after a binary event with an argument of '
                                'the placeholder shape (num=%r) the next '
                                'event of that client was handled %d times '
                                '(%r)' % (op['num'], len(tags),
                                          w.h.swallowed[:2]))
            got = w.recv(c['t'])
            acks = [(p['nsp'], p['id'], p['data']) for p in got]
            if acks != [(c['ns'], op['id2'], ['after-lookalike'])]:
                raise Violation('ack-after-placeholder-lookalike',
                                'acks %r' % (acks,))
            w.h.swallowed[:] = []
            labels['placeholder_lookalike_argument'] = True
            labels['nontrivial'] = True
            log.clear()
            continue
        if k == 'cwindow':
            lv = w.live()
            if not lv or (aio and not coro):
                continue
            ci = lv[op['c'] % len(lv)]
            c = w.clients[ci]
            nsb = NSS[op['ns']]
            if nsb == c['ns'] or w.client_on(c['t'], nsb) is not None or \
                    responsible(c['ns'], 'a') is None:
                continue
            frames, want_tags, want_acks = [], [], []
            for i in range(op['n']):
                tag += 1
                rets[tag] = 'cw%d' % tag
                eid = 500 + i if op['ids'] else None
                frames += wire.frames(wire.EVENT, c['ns'], eid,
                                      ['a', {'__tag': tag}, i])
                want_tags.append(tag)
                if eid is not None:
                    want_acks.append((c['ns'], eid, ['cw%d' % tag]))
            if case.get('always_connect') and \
                    responsible(nsb, 'a') is not None:
                # the connecting client itself is connected already (its
                # CONNECT was answered before the handler was called)
                for i in range(op['n']):
                    tag += 1
                    rets[tag] = 'cw%d' % tag
                    eid = 600 + i if op['ids'] else None
                    frames += wire.frames(wire.EVENT, nsb, eid,
                                          ['a', {'__tag': tag}, i])
                    want_tags.append(tag)
                    if eid is not None:
                        want_acks.append((nsb, eid, ['cw%d' % tag]))
                labels['events_of_always_connect_client_during_its_'
                       'connect_handler'] = True
            log.clear()
            w.recv_all()
            eio_sid = w.t[c['t']]
            cwin[nsb] = (eio_sid, frames)
            if aio:
                sock = w.h.eio.sockets[eio_sid]
                task = w.h.loop.spawn(sock.receive(w.h.eio_packet.Packet(
                    w.h.eio_packet.MESSAGE,
                    wire.frames(wire.CONNECT, nsb)[0])))
                w.h.loop.run_until_idle()
                if nsb not in cgates:
                    raise Violation('connect-handler-count',
                                    'the connect handler of %s did not run'
                                    % nsb)
                for f in cwin.pop(nsb)[1]:
                    w.h.feed(eio_sid, f, settle=False)
                w.h.settle()
                mid = [a['__tag'] for kind, args in log for a in args
                       if isinstance(a, dict) and set(a) == {'__tag'}]
                cgates.pop(nsb).set_result(None)
                w.h.loop.run_until_idle()
                if not task.done() or task.exception() is not None:
                    raise Violation('connect-failed', repr(task))
            else:
                w.send(c['t'], wire.CONNECT, nsb)
                mid = None
            w.h.settle()
            tags = [a['__tag'] for kind, args in log for a in args
                    if isinstance(a, dict) and set(a) == {'__tag'}]
            if sorted(tags) != want_tags or (mid is not None and
                                             sorted(mid) != want_tags):
                raise Violation('event-lost-while-sibling-connects',
                                'client %s on %s sent events %r while its '
                                'transport was connecting to %s: handled %r'
                                ' (%r before that handler answered)'
                                % (c['sid'], c['ns'], want_tags, nsb, tags,
                                   mid))
            got = w.recv(c['t'])
            acks = sorted((p['nsp'], p['id'], p['data']) for p in got
                          if p['type'] in (wire.ACK, wire.BINARY_ACK))
            if acks != sorted(want_acks):
                raise Violation('ack-lost-while-sibling-connects',
                                'acks %r, expected %r' % (acks, want_acks))
            for p in got:
                if p['type'] == wire.CONNECT and p['nsp'] == nsb:
                    w.clients.append({'t': c['t'], 'ns': nsb,
                                      'sid': p['data']['sid'],
                                      'alive': True})
                    w.all_sids.append(p['data']['sid'])
            if w.client_on(c['t'], nsb) is None:
                raise Violation('connect-failed', repr(got))
            labels['events_while_sibling_namespace_connects'] = True
            labels['nontrivial'] = True
            log.clear()
            continue
        if k == 'window':
            lv = w.live()
            if not lv:
                continue
            ci = lv[op['c'] % len(lv)]
            c = w.clients[ci]
            if aio and not coro:
                continue       # a plain function handler cannot be suspended
            frames = []
            for e in op['late']:
                tag += 1
                rets[tag] = e['ret']
                frames += wire.frames(
                    wire.EVENT, c['ns'], e['id'],
                    [e['name'], {'__tag': tag}] + list(e['args']))
            window[c['sid']] = (w.t[c['t']], frames)
            log.clear()
            w.recv_all()
            if aio:
                sock = w.h.eio.sockets[w.t[c['t']]]
                if op['how'] == 'cdisc':
                    fr = wire.frames(wire.DISCONNECT, c['ns'])
                    task = w.h.loop.spawn(sock.receive(w.h.eio_packet.Packet(
                        w.h.eio_packet.MESSAGE, fr[0])))
                else:
                    task = w.h.loop.spawn(sio.disconnect(c['sid'],
                                                         namespace=c['ns']))
                w.h.loop.run_until_idle()
                if c['sid'] in wgates:
                    late_frames(c['sid'])
                    w.h.settle()
                    wgates.pop(c['sid']).set_result(None)
                w.h.loop.run_until_idle()
                window.pop(c['sid'], None)
                if not task.done() or task.exception() is not None:
                    raise Violation('disconnect-failed', repr(task))
            else:
                if op['how'] == 'cdisc':
                    w.send(c['t'], wire.DISCONNECT, c['ns'])
                else:
                    w.do(sio.disconnect(c['sid'], namespace=c['ns']))
                window.pop(c['sid'], None)
            w.h.settle()
            w.mark_dead(ci)
            if log:
                raise Violation('event-handled-during-disconnect',
                                'client %s is being disconnected (%s) but '
                                'its late events were handled: %r'
                                % (c['sid'], op['how'], log[:2]))
            got = w.recv(c['t'])
            acks = [p for p in got if p['type'] in (wire.ACK,
                                                     wire.BINARY_ACK)]
            if acks:
                raise Violation('event-acked-during-disconnect',
                                repr(acks[:2]))
            labels['nontrivial'] = True
            labels['events_during_disconnect'] = True
            w.recv_all()
            continue
        # ---- burst of events
        lv = w.live()
        if not lv:
            continue
        per_t = {}
        expected = []        # per event dicts
        arrival = []
        for e in op['events']:
            ci = lv[e['c'] % len(lv)]
            c = w.clients[ci]
            ns = c['ns']
            connected = True
            if e.get('stray_ns') is not None:
                ns2 = NSS[e['stray_ns']]
                if w.client_on(c['t'], ns2) is None:
                    ns, connected = ns2, False
            tag += 1
            rets[tag] = e['ret']
            want_ret = copy.deepcopy(e['ret'])
            if e.get('reuse') and cached:
                rets[tag] = cached[0]
                want_ret = copy.deepcopy(cached[1])
                if e['id'] is not None and connected:
                    labels['cached_object_returned_again'] = True
            elif isinstance(e['ret'], (list, dict)) and e['ret'] and \
                    not cached:
                cached[:] = [e['ret'], copy.deepcopy(e['ret'])]
            args = [{'__tag': tag}] + list(e['args'])
            fr = wire.frames(wire.EVENT, ns, e['id'], [e['name']] + args)
            if e.get('bin0') and len(fr) == 1 and isinstance(fr[0], str) \
                    and fr[0][:1] == '2':
                fr = ['50-' + fr[0][1:]]
                labels['binary_event_without_attachments'] = True
            per_t.setdefault(c['t'], []).append((tag, fr))
            sid = c['sid'] if connected else None
            expected.append({'tag': tag, 't': c['t'], 'ns': ns, 'sid': sid,
                             'name': e['name'], 'id': e['id'], 'args': args,
                             'ret': want_ret, 'connected': connected,
                             'nframes': len(fr)})
        # interleave the transports' frame streams
        streams = {t: [(tg, f, i == len(fr) - 1) for tg, fr in lst
                       for i, f in enumerate(fr)]
                   for t, lst in per_t.items()}
        order = list(op['order'])
        oi = 0
        interleaved_binary = False
        open_binary = {}
        while any(streams.values()):
            ts = sorted(t for t, s in streams.items() if s)
            pick = ts[(order[oi % len(order)] if order else 0) % len(ts)]
            oi += 1
            tg, f, last = streams[pick].pop(0)
            if any(v for t2, v in open_binary.items() if t2 != pick):
                interleaved_binary = True
            open_binary[pick] = not last
            w.h.feed(w.t[pick], f, settle=False)
            if last:
                arrival.append(tg)
        if op.get('then_disc') is not None:
            senders = [e for e in expected if e['connected']]
            if senders:
                e_ = senders[op['then_disc'] % len(senders)]
                dci = w.client_on(e_['t'], e_['ns'])
                if dci is not None and not any(open_binary.values()):
                    for f in wire.frames(wire.DISCONNECT, e_['ns']):
                        w.h.feed(w.t[e_['t']], f, settle=False)
                    w.mark_dead(dci)
                    labels['disconnect_right_behind_events'] = True
                    labels['nontrivial'] = True
        w.h.settle(op['settle'] if case['async_handlers'] else None)
        got_pkts = w.recv_all()

        # ---- oracle: invocations
        by_tag = {}
        for kind, args in log:
            tg = None
            for a in args:
                if isinstance(a, dict) and set(a) == {'__tag'}:
                    tg = a['__tag']
            by_tag.setdefault(tg, []).append((kind, args))
        exp_acks = {}
        for e in expected:
            inv = by_tag.get(e['tag'], [])
            tgt = responsible(e['ns'], e['name']) if e['connected'] else None
            want_inv = tgt is not None
            if tgt and tgt[0] == 'class:/c':
                want_inv = e['name'] in ('a', 'b')
            if not want_inv:
                if inv:
                    raise Violation(
                        'invoked-unexpectedly',
                        'event %r on %s (connected=%s) invoked %r'
                        % (e['name'], e['ns'], e['connected'], inv))
            else:
                if len(inv) != 1:
                    raise Violation('invocation-count',
                                    'event %r tag %d on %s: %d invocations'
                                    % (e['name'], e['tag'], e['ns'],
                                       len(inv)))
                kind, args = inv[0]
                if tgt[0] == 'class:/c':
                    wk = 'class:/c:' + e['name']
                else:
                    wk = tgt[0]
                wargs = ([e['name']] if tgt[1] else []) + [e['sid']] + \
                    e['args']
                if kind != wk:
                    raise Violation('wrong-target', '%s instead of %s'
                                    % (kind, wk))
                if not strict_eq(list(args), wargs):
                    raise Violation('wrong-arguments', '%r != %r'
                                    % (list(args), wargs))
            if tgt is not None and e['id'] is not None:
                r = e['ret'] if want_inv else None
                exp_acks.setdefault(e['t'], []).append(
                    (e['tag'], e['ns'], e['id'], wire.pack_args(r)))
        if None in by_tag:
            raise Violation('untagged-invocation', repr(by_tag[None])[:300])
        # ---- oracle: order (async_handlers off: arrival order per client)
        if not case['async_handlers']:
            seq = [tg for kind, args in log for a in args
                   if isinstance(a, dict) and set(a) == {'__tag'}
                   for tg in [a['__tag']]]
            want_seq = [tg for tg in arrival if tg in by_tag]
            if seq != want_seq:
                raise Violation('handling-order', '%r != arrival %r'
                                % (seq, want_seq))
        # ---- oracle: ACKs
        for t, pkts in got_pkts.items():
            want = exp_acks.get(t, [])
            for p in pkts:
                if p['type'] not in (wire.ACK, wire.BINARY_ACK):
                    raise Violation('unexpected-packet',
                                    'transport %d: %r' % (t, p))
            got = [(p['nsp'], p['id'], p['data'], p['binary']) for p in pkts]
            wl = [(ns, i, d, S.contains_bytes(d)) for _, ns, i, d in want]
            if case['async_handlers']:
                key = repr
                got = sorted(got, key=key)
                wl = sorted(wl, key=key)
            else:
                atag = {tg: n for n, tg in enumerate(arrival)}
                wl = [x for _, x in sorted(
                    zip([atag[tg] for tg, *_ in want], wl),
                    key=lambda z: z[0])]
            if len(got) != len(wl) or not all(
                    strict_eq(list(a), list(b)) for a, b in zip(got, wl)):
                kind = 'ack-missing' if len(got) < len(wl) else (
                    'ack-extra' if len(got) > len(wl) else 'ack-mismatch')
                raise Violation(kind, 'transport %d: acks %r expected %r'
                                % (t, got, wl))
        # ---- labels
        ids = {}
        for e in expected:
            if e['id'] is not None and e['connected']:
                ids.setdefault(e['id'], set()).add((e['t'], e['ns']))
        if any(len(v) > 1 for v in ids.values()):
            labels['nontrivial'] = True
            labels['colliding_ids'] = True
        if interleaved_binary:
            labels['nontrivial'] = True
            labels['interleaved_binary'] = True
        if any(isinstance(e['ret'], (tuple, bytes)) or
               S.contains_bytes(e['ret']) for e in expected
               if e['connected'] and e['id'] is not None):
            labels['nontrivial'] = True
            labels['tuple_or_bytes_return'] = True
        if any(not e['connected'] for e in expected):
            labels['unconnected_ns_event'] = True
        log.clear()
    if w.h.bg_errors:
        raise Violation('background-task-raised', repr(w.h.bg_errors[0]))
    return labels


def classify(case, v):
    return v.kind
