"""C07 Multi-host pub/sub: a cluster behaves like one server holding all
clients."""
from hypothesis import strategies as st

from .. import strategies as S
from .. import wire
from ..case import strict_eq
from ..cluster import Cluster
from ..core import Violation
from ..world import World

PID = 'C07'
CB_FAULT = 'application callback fault'
SEND_FAULT = 'injected transport send fault'
RULE = ('2-4 hosts (real Server/AsyncServer + PubSubManager/'
        'AsyncPubSubManager subclasses over an in-memory ordered channel '
        'carrying pickled messages, the real listener loop body run per '
        'consumption step) plus an optional write-only manager, and a '
        'reference single Server holding all clients, driven by the same '
        'generated history: connect on host h, enter/leave/close_room via '
        'any host, emit(to, skip_sid, callback?) via any host or the '
        'write-only manager, disconnect via any host, client DISCONNECT, '
        'client ACKs; schedules: immediate (every host drains after every '
        'op: per-client event sequences, rooms and callbacks must equal the '
        "reference's) and delayed (generated consumption steps, one message "
        'per step; a membership operation or disconnect that travels '
        'through the channel is applied to the single server at the step '
        "where the client's own host consumes it - its place in the "
        'equivalent single-server history; at most once, eligibility inside '
        'the flight window, exactness when no membership change touches the '
        'window, equal rooms once everything is consumed). Application '
        'callbacks may raise or (asyncio) end with CancelledError; a '
        'listener loop that ends for any reason but end-of-stream, and a '
        'channel that grows beyond any legitimate history (hosts answering '
        'each other), are violations; on the asyncio side the send to one '
        'client of the issuing host may fail during an emit (cluster and '
        'single server alike); histories contain, as a macro, an '
        'acknowledgement on its way back to the issuing host while that '
        'host disconnects / moves the same client, and once everything is '
        'consumed every callback the single server invoked must have been '
        'invoked. Non-trivial: >=2 hosts with '
        'clients, an op issued on a host that does not own the target, and '
        'a cross-host callback or a room with members on two hosts (delayed: '
        'a membership change inside a flight window).')
ASSUMPTIONS = [
    'only live clients are addressed (single-server errors for strangers '
    'are outside the comparison)',
    'in-memory FIFO channel with pickling; no real broker',
    'callbacks only on emits addressed to one client',
]
BUDGET = {'quick': 4000, 'thorough': 64000}
FLOOR = {'quick': 300, 'thorough': 5000}
NSS = ['/', '/a']
ROOMS = ['r1', 'r2', 7]


def strategy(tier):
    big = tier == 'thorough'
    ci = st.integers(0, 9)
    hi = st.integers(0, 3)
    room = st.integers(0, 2)
    mroom = st.one_of(st.integers(0, 2), st.integers(0, 5))   # 3..5: a sid
    to = st.one_of(st.none(), room, st.lists(room, min_size=1, max_size=3),
                   st.fixed_dictionaries({'sid': ci}))
    op = st.one_of(
        st.fixed_dictionaries({'op': st.just('connect'), 'h': hi,
                               'ns': st.integers(0, 1)}),
        st.fixed_dictionaries({'op': st.just('enter'), 'c': ci, 'room': mroom,
                               'via': hi}),
        st.fixed_dictionaries({'op': st.just('enter'), 'c': ci, 'room': mroom,
                               'via': hi}),
        st.fixed_dictionaries({'op': st.just('leave'), 'c': ci, 'room': mroom,
                               'via': hi}),
        st.fixed_dictionaries({'op': st.just('close_room'), 'room': mroom,
                               'ns': st.integers(0, 1), 'via': hi}),
        st.fixed_dictionaries({'op': st.just('emit'), 'via': st.one_of(
            hi, st.just('wo')), 'to': to, 'ns': st.integers(0, 1),
            'skip': st.one_of(st.none(), ci, st.lists(ci, max_size=2)),
            'data': S.tree_st(max_leaves=3)}),
        st.fixed_dictionaries({'op': st.just('emit'), 'via': hi, 'to': to,
                               'ns': st.integers(0, 1),
                               'skip': st.none(), 'data': st.just('x')}),
        # asyncio: the send to one client of the issuing host fails (its
        # socket is closed, the disconnect not processed yet); everybody
        # else is served as usual
        st.fixed_dictionaries({'op': st.just('emit'), 'via': hi, 'to': to,
                               'ns': st.integers(0, 1),
                               'skip': st.none(), 'data': st.just('y'),
                               'fail': ci}),
        st.fixed_dictionaries({'op': st.just('emit_cb'), 'via': hi, 'c': ci}),
        st.fixed_dictionaries({'op': st.just('emit_cb'), 'via': hi, 'c': ci}),
        # a client joins the room named after another client's session id,
        # then that session id is addressed from the owner's host or another
        st.fixed_dictionaries({'op': st.just('sid_room_emit'), 'x': ci,
                               'y': ci, 'own_host': st.booleans(),
                               'via': hi}),
        st.fixed_dictionaries({'op': st.just('emit_cb2'), 'via': hi,
                               'via2': hi, 'c': ci}),
        st.fixed_dictionaries({'op': st.just('ack'), 'c': ci,
                               'args': st.lists(S.tree_st(max_leaves=2),
                                                max_size=2)}),
        # (j: which of the client's unanswered events - not only the oldest)
        st.fixed_dictionaries({'op': st.just('ack'), 'c': ci,
                               'j': st.integers(0, 3),
                               'args': st.lists(S.tree_st(max_leaves=2),
                                                max_size=2)}),
        st.fixed_dictionaries({'op': st.just('sdisc'), 'c': ci, 'via': hi}),
        st.fixed_dictionaries({'op': st.just('cdisc'), 'c': ci}),
        st.fixed_dictionaries({'op': st.just('consume'), 'h': hi,
                               'k': st.integers(1, 4)}),
        st.fixed_dictionaries({'op': st.just('consume'), 'h': hi,
                               'k': st.integers(1, 4)}),
    )
    return st.fixed_dictionaries({
        'aio': st.booleans(), 'nhosts': st.integers(2, 4),
        'delayed': st.booleans(),
        # application callbacks raise after they ran ('cancel': asyncio
        # coroutine callbacks end with CancelledError)
        'cb_fault': st.sampled_from([None, None, None, 'raise', 'cancel']),
        'init': st.lists(st.tuples(hi, st.integers(0, 1)), min_size=3,
                         max_size=6),
        'init_rooms': st.lists(st.tuples(ci, room), min_size=2, max_size=6),
        'ops': st.lists(st.one_of(op.map(lambda o: [o]),
                                  op.map(lambda o: [o]),
                                  op.map(lambda o: [o]),
                                  op.map(lambda o: [o]), _macro_st()),
                        min_size=4, max_size=80 if big else 30).map(
            lambda ll: [o for l in ll for o in l][:120 if big else 45])})


def _macro_st():
    """A callback emit whose acknowledgement is on its way back to the
    issuing host while that host issues something else about the same
    client."""
    def build(t):
        via, c, then, room = t
        if then == 'reverse_acks':
            # two callback emits to one client, acknowledged newest first
            cons = [{'op': 'consume', 'h': h, 'k': 1} for h in range(4)]
            return ([{'op': 'emit_cb2', 'via': via, 'via2': via, 'c': c}] +
                    cons * 2 + [{'op': 'ack', 'c': c, 'j': 1, 'args': [2]}] +
                    cons + [{'op': 'ack', 'c': c, 'j': 0, 'args': [1]}] +
                    cons)
        seq = [{'op': 'emit_cb', 'via': via, 'c': c}]
        seq += [{'op': 'consume', 'h': h, 'k': 1} for h in range(4)] * 2
        seq += [{'op': 'ack', 'c': c, 'args': [1]}]
        if then == 'sdisc':
            seq += [{'op': 'sdisc', 'c': c, 'via': via}]
        elif then == 'close_room':
            seq += [{'op': 'close_room', 'room': room, 'ns': 0, 'via': via}]
        else:
            seq += [{'op': then, 'c': c, 'room': room, 'via': via}]
        return seq
    return st.tuples(st.integers(0, 3), st.integers(0, 9),
                     st.sampled_from(['sdisc', 'sdisc', 'enter', 'leave',
                                      'close_room', 'reverse_acks',
                                      'reverse_acks']),
                     st.integers(0, 2)).map(build)


def check_case(case):
    cl = Cluster(aio=case['aio'], nhosts=case['nhosts'], namespaces=NSS)
    ref = World(aio=case['aio'], namespaces=NSS)
    try:
        return _run(case, cl, ref)
    finally:
        cl.close()
        ref.close()


def _run(case, cl, ref):
    aio = case['aio']
    delayed = case['delayed']
    nh = case['nhosts']
    labels = {'aio': aio, 'delayed': delayed, 'nontrivial': False}
    cb_log = []         # (host index, k, args)
    ref_cb_log = []
    for h in cl.hosts:
        for n in NSS:
            h.sio.on('connect', lambda sid, environ, auth=None: None,
                     namespace=n)
    for n in NSS:
        ref.sio.on('connect', lambda sid, environ, auth=None: None,
                   namespace=n)
    # client i in the cluster == client i on the reference server
    rtrans = []

    def connect(hi, ns):
        ci = cl.connect(hi % nh, ns)
        if ci is None:
            raise Violation('connect-refused', '')
        t = ref.open()
        rci, _ = ref.connect(t, ns)
        if rci != ci:
            raise Violation('harness-index-mismatch', '')
        rtrans.append(t)
        return ci

    for hi, n in case['init']:
        connect(hi, NSS[n])
    for c_, r_ in case.get('init_rooms', []):
        i = c_ % len(cl.clients)
        c, rc = cl.clients[i], ref.clients[i]
        host = cl.hosts[c['host']]
        host.h.do(host.sio.enter_room(c['sid'], ROOMS[r_],
                                      namespace=c['ns']))
        ref.do(ref.sio.enter_room(rc['sid'], ROOMS[r_], namespace=rc['ns']))
    received = {}       # client -> list of (event, args) (cluster)
    ref_received = {}
    pending_acks = {}   # client -> list of (cluster id, ref id, k)
    emits = {}          # tag -> info for the delayed oracle
    snapshots = []      # reference membership after each step
    tag = [0]
    kctr = [0]
    cross_host = [False]
    sid_rooms = [False]
    multi_host_room = [False]
    member_steps = []   # steps of membership-affecting operations

    def live():
        return [i for i, c in enumerate(cl.clients) if c['alive']]

    def snapshot():
        m = {}
        for i in live():
            c = ref.clients[i]
            m[i] = (c['ns'], frozenset(map(repr, ref.sio.rooms(
                c['sid'], namespace=c['ns']))))
        snapshots.append(m)

    def collect():
        for i, c in enumerate(cl.clients):
            for p in cl.recv(i):
                if p['type'] in (wire.EVENT, wire.BINARY_EVENT):
                    received.setdefault(i, []).append(
                        (p['nsp'], p['data'], p['id']))
                elif p['type'] == wire.DISCONNECT:
                    received.setdefault(i, []).append(
                        (p['nsp'], 'DISCONNECT', None))
                else:
                    raise Violation('unexpected-packet', repr(p))
        for i, t in enumerate(rtrans):
            for p in ref.recv(t):
                if p['type'] in (wire.EVENT, wire.BINARY_EVENT):
                    ref_received.setdefault(i, []).append(
                        (p['nsp'], p['data'], p['id']))
                elif p['type'] == wire.DISCONNECT:
                    ref_received.setdefault(i, []).append(
                        (p['nsp'], 'DISCONNECT', None))

    def compare_now(step):
        """Immediate schedule: exact equivalence with the reference."""
        for i in range(len(cl.clients)):
            a = [(n, d) for n, d, _ in received.get(i, [])]
            b = [(n, d) for n, d, _ in ref_received.get(i, [])]
            if len(a) != len(b) or not all(
                    x[0] == y[0] and strict_eq(x[1], y[1])
                    for x, y in zip(a, b)):
                tags_a = [repr(x[1])[:40] for x in a]
                kind = 'delivered-twice' if len(tags_a) != len(
                    set(tags_a)) and len(a) > len(b) else (
                        'delivery-missing' if len(a) < len(b)
                        else 'delivery-differs')
                raise Violation(kind, 'step %s client %d (host %d): cluster '
                                '%r, single server %r'
                                % (step, i, cl.clients[i]['host'], a[-3:],
                                   b[-3:]))
        if cb_log != ref_cb_log and sorted(map(repr, [x[1:] for x in cb_log])) \
                != sorted(map(repr, [x[1:] for x in ref_cb_log])):
            raise Violation('callbacks-differ', 'step %s: cluster %r, single '
                            'server %r' % (step, cb_log[-3:],
                                           ref_cb_log[-3:]))

    def room_pair(r):
        """(room name in the cluster, room name on the single server):
        0..2 ordinary rooms, 3..5 the session id of a client (a room named
        like a session id; the two worlds issue different sids)."""
        if r < len(ROOMS) or not cl.clients:
            return ROOMS[r % len(ROOMS)], ROOMS[r % len(ROOMS)]
        i = (r - len(ROOMS)) % len(cl.clients)
        sid_rooms[0] = True
        return cl.clients[i]['sid'], ref.clients[i]['sid']

    def compare_rooms(step):
        csid = {c['sid']: 'client-%d' % n for n, c in enumerate(cl.clients)}
        rsid = {c['sid']: 'client-%d' % n for n, c in enumerate(ref.clients)}
        for i in live():
            c = cl.clients[i]
            host = cl.hosts[c['host']]
            a = {csid.get(r, repr(r)) for r in host.sio.rooms(
                c['sid'], namespace=c['ns'])}
            rc = ref.clients[i]
            b = {rsid.get(r, repr(r)) for r in ref.sio.rooms(
                rc['sid'], namespace=rc['ns'])}
            if a != b:
                raise Violation('rooms-differ', 'step %s client %d: cluster '
                                '%r, single server %r' % (step, i, a, b))

    cb_fault = case.get('cb_fault')

    def mk_cb(log, hi, k):
        if aio:
            async def cb(*args):
                log.append((hi, k, list(args)))
                if cb_fault == 'cancel':
                    # the callback awaited something that was cancelled
                    import asyncio
                    raise asyncio.CancelledError()
                if cb_fault:
                    raise RuntimeError(CB_FAULT)
        else:
            def cb(*args):
                log.append((hi, k, list(args)))
                if cb_fault:
                    raise RuntimeError(CB_FAULT)
        return cb

    # delayed schedule: a membership operation that travels through the
    # channel takes effect on the single server when the host that holds the
    # client consumes it (that is its place in the equivalent single-server
    # history; operations on clients of different hosts commute)
    deferred = {}       # bus index -> operation
    applied = set()     # (bus index, host)

    def ref_close_part(hidx, ns, rroom):
        for i in live():
            rc = ref.clients[i]
            if cl.clients[i]['host'] == hidx and rc['ns'] == ns and \
                    rroom in ref.sio.rooms(rc['sid'], namespace=ns):
                ref.do(ref.sio.leave_room(rc['sid'], rroom, namespace=ns))

    def apply_deferred():
        did = False
        for idx in sorted(deferred):
            d = deferred[idx]
            for h in cl.hosts:
                if (idx, h.idx) in applied or idx not in h.mgr.consumed_at:
                    continue
                applied.add((idx, h.idx))
                if d[0] == 'close':
                    if h.idx != d[1]:
                        ref_close_part(h.idx, d[2], d[3])
                        did = True
                elif cl.clients[d[1]]['host'] == h.idx:
                    rc = ref.clients[d[1]]
                    if not cl.clients[d[1]]['alive']:
                        continue
                    did = True
                    if d[0] == 'disconnect':
                        ref.do(ref.sio.disconnect(rc['sid'],
                                                  namespace=rc['ns']))
                        cl.clients[d[1]]['alive'] = False
                        ref.mark_dead(d[1])
                    else:
                        ref.do(getattr(ref.sio, d[0])(rc['sid'], d[2],
                                                      namespace=rc['ns']))
        return did

    failed_ci = [None]
    all_ops = list(case['ops'])
    snapshot()      # snapshots[0]: initial state; snapshots[s+1]: after step s

    def do_op(step, op):
            cl.bus.step = step
            k = op['op']
            lv = live()
            if k == 'connect':
                if len(cl.clients) < 10:
                    connect(op['h'], NSS[op['ns']])
            elif k == 'consume':
                if delayed:
                    # one message per step, so that the membership on the
                    # single server is recorded between any two of them
                    cl.hosts[op['h'] % nh].consume(1)
                    if apply_deferred():
                        member_steps.append(step)
            elif not lv and k != 'close_room' and not (
                    k == 'emit' and not isinstance(op['to'], dict)):
                return
            elif k in ('enter', 'leave'):
                ci = lv[op['c'] % len(lv)]
                c, rc = cl.clients[ci], ref.clients[ci]
                via = cl.hosts[op['via'] % nh]
                room, rroom = room_pair(op['room'])
                fn = 'enter_room' if k == 'enter' else 'leave_room'
                n0 = len(cl.bus)
                via.h.do(getattr(via.sio, fn)(c['sid'], room, namespace=c['ns']))
                if delayed and len(cl.bus) == n0 + 1:
                    # handed to the client's own host through the channel:
                    # it takes effect when that host consumes the message
                    deferred[n0] = (fn, ci, rroom)
                else:
                    ref.do(getattr(ref.sio, fn)(rc['sid'], rroom,
                                                namespace=rc['ns']))
                if via.idx != c['host']:
                    cross_host[0] = True
            elif k == 'close_room':
                via = cl.hosts[op['via'] % nh]
                room, rroom = room_pair(op['room'])
                ns = NSS[op['ns']]
                n0 = len(cl.bus)
                via.h.do(via.sio.close_room(room, namespace=ns))
                if delayed and len(cl.bus) == n0 + 1:
                    # the issuing host closes its part at once, every other
                    # host when it consumes the message
                    ref_close_part(via.idx, ns, rroom)
                    deferred[n0] = ('close', via.idx, ns, rroom)
                else:
                    ref.do(ref.sio.close_room(rroom, namespace=ns))
            elif k == 'emit':
                ns = NSS[op['ns']]
                to = op['to']
                if isinstance(to, dict):
                    ci = lv[to['sid'] % len(lv)]
                    kw_c = {'to': cl.clients[ci]['sid']}
                    kw_r = {'to': ref.clients[ci]['sid']}
                    ns = cl.clients[ci]['ns']
                elif isinstance(to, list):
                    kw_c = kw_r = {'to': [ROOMS[r] for r in to]}
                elif to is None:
                    kw_c = kw_r = {}
                else:
                    kw_c = kw_r = {'to': ROOMS[to]}
                skip = op['skip']
                if skip is None or not lv:
                    sk_c = sk_r = None
                elif isinstance(skip, list):
                    ids = [lv[s % len(lv)] for s in skip]
                    sk_c = [cl.clients[i]['sid'] for i in ids]
                    sk_r = [ref.clients[i]['sid'] for i in ids]
                else:
                    i = lv[skip % len(lv)]
                    sk_c, sk_r = cl.clients[i]['sid'], ref.clients[i]['sid']
                tag[0] += 1
                cursors_before = [h.mgr.cursor for h in cl.hosts]
                data = ({'tag': tag[0]}, op['data'])
                if op['via'] == 'wo':
                    mgr = cl.write_only()
                    cl.do(mgr.emit('ev', data, namespace=ns, skip_sid=sk_c,
                                   **{('room' if 'to' in kw_c else 'x'):
                                      kw_c.get('to')} if kw_c else {}))
                    cross_host[0] = True
                else:
                    via = cl.hosts[op['via'] % nh]
                    undo = []
                    failed_ci[0] = None
                    if aio and op.get('fail') is not None and lv:
                        fi = lv[op['fail'] % len(lv)]
                        if cl.clients[fi]['host'] == via.idx:
                            for eio, tgt in (
                                    (via.sio.eio, cl.clients[fi]['t']),
                                    (ref.sio.eio, ref.t[rtrans[fi]])):
                                real = eio.send_packet

                                async def failing(sid, pkt, real=real,
                                                  tgt=tgt):
                                    if sid == tgt:
                                        raise RuntimeError(SEND_FAULT)
                                    return await real(sid, pkt)
                                eio.send_packet = failing
                                undo.append((eio, real))
                            labels['local_send_fails'] = True
                            failed_ci[0] = fi
                    try:
                        via.h.do(via.sio.emit('ev', data, namespace=ns,
                                              skip_sid=sk_c, **kw_c))
                    except RuntimeError as e:
                        if SEND_FAULT not in str(e):
                            raise
                try:
                    ref.do(ref.sio.emit('ev', data, namespace=ns,
                                        skip_sid=sk_r, **kw_r))
                except RuntimeError as e:
                    if SEND_FAULT not in str(e):
                        raise
                for eio, real in (undo if op['via'] != 'wo' else []):
                    eio.send_packet = real
                emits[tag[0]] = {'step': step, 'ns': ns, 'to': kw_r.get('to'),
                                 'failed': failed_ci[0] if op['via'] != 'wo'
                                 else None,
                                 'skip': sk_r, 'via': op['via'],
                                 'cursors': cursors_before,
                                 'idx': len(cl.bus) - 1}
            elif k == 'sid_room_emit':
                if len(lv) < 2:
                    return
                xi = lv[op['x'] % len(lv)]
                yi = lv[op['y'] % len(lv)]
                x, y = cl.clients[xi], cl.clients[yi]
                if xi == yi or x['ns'] != y['ns']:
                    return
                hy = cl.hosts[y['host']]
                hy.h.do(hy.sio.enter_room(y['sid'], x['sid'],
                                          namespace=y['ns']))
                ref.do(ref.sio.enter_room(ref.clients[yi]['sid'],
                                          ref.clients[xi]['sid'],
                                          namespace=y['ns']))
                sid_rooms[0] = True
                if not delayed:
                    cl.drain_all()
                via = cl.hosts[x['host']] if op['own_host'] else \
                    cl.hosts[op['via'] % nh]
                tag[0] += 1
                cursors_before = [h.mgr.cursor for h in cl.hosts]
                data = ({'tag': tag[0]}, 'sid-room')
                via.h.do(via.sio.emit('ev', data, to=x['sid'],
                                      namespace=x['ns']))
                ref.do(ref.sio.emit('ev', data, to=ref.clients[xi]['sid'],
                                    namespace=x['ns']))
                emits[tag[0]] = {'step': step, 'ns': x['ns'],
                                 'to': ref.clients[xi]['sid'], 'skip': None,
                                 'via': via.idx, 'cursors': cursors_before,
                                 'idx': len(cl.bus) - 1}
                if x['host'] != y['host']:
                    cross_host[0] = True
                    multi_host_room[0] = True
            elif k in ('emit_cb', 'emit_cb2'):
                ci = lv[op['c'] % len(lv)]
                c, rc = cl.clients[ci], ref.clients[ci]
                if len(list(ref.sio.manager.get_participants(
                        rc['ns'], rc['sid']))) != 1:
                    return      # a callback needs exactly one addressee
                vias = [op['via']] + ([op['via2']] if k == 'emit_cb2' else [])
                for v_ in vias:
                    via = cl.hosts[v_ % nh]
                    kctr[0] += 1
                    kk = kctr[0]
                    via.h.do(via.sio.emit('q', kk, to=c['sid'],
                                          namespace=c['ns'],
                                          callback=mk_cb(cb_log, via.idx, kk)))
                    ref.do(ref.sio.emit('q', kk, to=rc['sid'],
                                        namespace=rc['ns'],
                                        callback=mk_cb(ref_cb_log, via.idx, kk)))
                    if via.idx != c['host']:
                        cross_host[0] = True
                        labels['cross_host_callback'] = True
                    if not delayed:
                        cl.drain_all()
                if len({v_ % nh for v_ in vias} - {c['host']}) >= 2:
                    labels['two_remote_callbacks_same_client'] = True
            elif k == 'ack':
                ci = lv[op['c'] % len(lv)]
                collect()
                pend = [(n, d, i) for n, d, i in received.get(ci, [])
                        if i is not None and (ci, d[1]) not in pending_acks]
                if not pend:
                    return
                n, d, cid = pend[op.get('j', 0) % len(pend)]
                pending_acks[(ci, d[1])] = True
                rid = [i for n2, d2, i in ref_received.get(ci, [])
                       if d2 == d]
                cl.send(ci, wire.ACK, cid, list(op['args']))
                if rid:
                    ref.send(rtrans[ci], wire.ACK, ref.clients[ci]['ns'],
                             rid[0], list(op['args']))
            elif k == 'sdisc':
                ci = lv[op['c'] % len(lv)]
                c, rc = cl.clients[ci], ref.clients[ci]
                via = cl.hosts[op['via'] % nh]
                n0 = len(cl.bus)
                via.h.do(via.sio.disconnect(c['sid'], namespace=c['ns']))
                if delayed and len(cl.bus) == n0 + 1:
                    # takes effect when the client's own host consumes it
                    deferred[n0] = ('disconnect', ci, None)
                else:
                    ref.do(ref.sio.disconnect(rc['sid'], namespace=rc['ns']))
                    c['alive'] = False
                    ref.mark_dead(ci)
                if via.idx != c['host']:
                    cross_host[0] = True
            elif k == 'cdisc':
                ci = lv[op['c'] % len(lv)]
                cl.send(ci, wire.DISCONNECT)
                ref.send(rtrans[ci], wire.DISCONNECT, ref.clients[ci]['ns'])
                cl.clients[ci]['alive'] = False
                ref.mark_dead(ci)

    for step, op in enumerate(all_ops):
        cl.bus.step = step
        k = op['op']
        do_op(step, op)
        if k in ('enter', 'leave', 'close_room', 'sdisc', 'cdisc',
                 'connect', 'sid_room_emit'):
            member_steps.append(step)
        if not delayed:
            cl.drain_all()
            collect()
            compare_now(step)
            compare_rooms(step)
        snapshot()
        # rooms with members on two hosts
        byroom = {}
        for i in live():
            c = cl.clients[i]
            for r in ref.sio.rooms(ref.clients[i]['sid'],
                                   namespace=c['ns']):
                if r in ROOMS:
                    byroom.setdefault((c['ns'], repr(r)), set()).add(
                        c['host'])
        if any(len(v) >= 2 for v in byroom.values()):
            multi_host_room[0] = True
    # ---- end of history: everything drains
    cl.bus.step = len(all_ops)
    if delayed:
        # one message at a time, recording the single server's membership
        # after each (consumed_at / snapshots keep counting steps)
        for _ in range(100000):
            busy = [h for h in cl.hosts if h.unread()]
            if not busy:
                break
            for h in busy:
                h.consume(1)
                if apply_deferred():
                    member_steps.append(cl.bus.step)
                snapshot()
                cl.bus.step += 1
    cl.drain_all()
    collect()
    for h in cl.hosts:
        if h.died:
            raise Violation('listener-died', 'the pub/sub listener of host '
                            '%d left its loop before the channel ended'
                            % h.idx)
        errs = [e for e in h.logged if e[0] == 'exception' and
                CB_FAULT not in str(e[2])]
        if errs:
            raise Violation('listener-logged-exception', repr(errs[0]))
    if not delayed:
        compare_now('end')
        compare_rooms('end')
    else:
        compare_rooms('end')
        _delayed_oracle(cl, ref, received, ref_received, cb_log, ref_cb_log,
                        labels)
        _flight_oracle(cl, ref, received, emits, snapshots, member_steps,
                       labels)
    hosts_with_clients = {c['host'] for c in cl.clients}
    labels['nontrivial'] = bool(
        len(hosts_with_clients) >= 2 and cross_host[0] and (
            labels.get('cross_host_callback') or multi_host_room[0]))
    if multi_host_room[0]:
        labels['multi_host_room'] = True
    if sid_rooms[0]:
        labels['room_named_like_sid'] = True
    return labels


def _delayed_oracle(cl, ref, received, ref_received, cb_log, ref_cb_log,
                    labels):
    """At most once; only to clients the single server delivered to at the
    time of the emit or that became addressed later (weak eligibility: the
    client must at least be on the emit's namespace); and every callback at
    most once, on the issuing host, with the ACK's arguments."""
    for i, evs in received.items():
        seen = set()
        for n, d, _ in evs:
            if d == 'DISCONNECT':
                continue
            key = repr(d[1]) if d[0] == 'ev' else ('q', d[1])
            if key in seen:
                raise Violation('delivered-twice', 'client %d: %r' % (i, d))
            seen.add(key)
            if n != cl.clients[i]['ns']:
                raise Violation('delivered-on-wrong-namespace',
                                'client %d: %r' % (i, (n, d)))
    ks = [k for _, k, _ in cb_log]
    if len(ks) != len(set(ks)):
        raise Violation('callback-twice', repr(cb_log))
    want = {k: (hi, a) for hi, k, a in ref_cb_log}
    missing = set(want) - set(ks)
    if missing:
        # everything has been consumed: an acknowledgement the single server
        # accepted has reached the issuing host
        raise Violation('callback-missing', 'callbacks %r were invoked on '
                        'the single server, never in the cluster (cluster: '
                        '%r)' % (sorted(missing), cb_log))
    for hi, k, a in cb_log:
        if k not in want:
            continue        # the single server lost the race differently
        if want[k][0] != hi or not strict_eq(want[k][1], a):
            raise Violation('callback-on-wrong-host-or-args',
                            '%r vs %r' % ((hi, k, a), want[k]))


MEMBER_METHODS = ('enter_room', 'leave_room', 'close_room', 'disconnect')


def _addressed(snap, ref, e):
    """Clients the single server addresses with emit e in state snap."""
    out = set()
    to = e['to']
    rooms = None if to is None else (
        [repr(r) for r in to] if isinstance(to, list) else [repr(to)])
    skip = e['skip']
    skips = set() if skip is None else (
        set(skip) if isinstance(skip, list) else {skip})
    for i, (ns, rs) in snap.items():
        if ns != e['ns']:
            continue
        if ref.clients[i]['sid'] in skips:
            continue
        if rooms is None or any(r in rs for r in rooms):
            out.add(i)
    return out


def _flight_oracle(cl, ref, received, emits, snapshots, member_steps,
                   labels):
    """Delayed schedule: every recipient was addressed at some instant while
    the message was in flight for its host, and when no membership change was
    issued or pending during that window the recipients on that host are
    exactly the single server's."""
    import pickle
    methods = [pickle.loads(b)['method'] for _, b in cl.bus]
    issue = [s for s, _ in cl.bus]
    last = len(snapshots) - 1
    got = {}     # tag -> set(client)
    for i, evs in received.items():
        for n, d, _ in evs:
            if d != 'DISCONNECT' and d[0] == 'ev':
                got.setdefault(d[1]['tag'], set()).add(i)
    for tg, e in emits.items():
        p = e['step']
        for h in cl.hosts:
            mine = {i for i, c in enumerate(cl.clients)
                    if c['host'] == h.idx}
            issuing = e['via'] == h.idx or (
                e['via'] != 'wo' and e['via'] % len(cl.hosts) == h.idx)
            if issuing:
                t_cons = p
            else:
                t_cons = h.mgr.consumed_at.get(e['idx'], last)
            cur = e['cursors'][h.idx]
            pending = list(range(cur, e['idx'] if e['idx'] >= cur else cur))
            start = min([issue[j] for j in pending] + [p])
            # snapshots[j] is the state before step j, snapshots[j+1] after
            lo = start
            hi = min(max(t_cons, p) + 1, last)
            window = [snapshots[s] for s in range(lo, hi + 1)]
            elig = set()
            for sn in window:
                elig |= _addressed(sn, ref, e)
            mine_got = got.get(tg, set()) & mine
            bad = mine_got - elig
            if bad:
                raise Violation(
                    'delivered-to-never-addressed-client',
                    'emit tag %d (step %d, to=%r) reached clients %r on host '
                    '%d which were not addressed at any time in steps '
                    '%d..%d' % (tg, p, e['to'], sorted(bad), h.idx, lo, hi - 1))
            raced = any(methods[j] in MEMBER_METHODS for j in pending) or \
                any(lo <= s < hi for s in member_steps)
            if raced:
                labels['raced_emit'] = True
                continue
            want = _addressed(snapshots[min(p + 1, last)], ref, e) & mine
            want.discard(e.get('failed'))
            if mine_got != want:
                raise Violation(
                    'unraced-delivery-differs',
                    'emit tag %d (step %d, to=%r): host %d delivered to %r, '
                    'single server to %r' % (tg, p, e['to'], h.idx,
                                             sorted(mine_got), sorted(want)))
            labels['unraced_emit'] = True


def classify(case, v):
    return v.kind
