"""C13 Handler resolution follows the documented precedence on server and
client."""
import itertools

from hypothesis import strategies as st

from .. import core
from .. import strategies as S
from .. import wire
from ..case import strict_eq
from ..core import Violation
from ..detloop import DetLoop

PID = 'C13'
FAULT = 'application handler fault'
KNOWN = set()
EXHAUSTIVE = True
EXHAUSTIVE_SCOPE = ('all 2**6 presence/absence combinations of the six kinds '
                    'of target x {ordinary, reserved event} x {namespace has '
                    '/ the catch-all namespace has / both have / neither has '
                    'a handler for an unrelated event} x {Server, AsyncServer, '
                    'Client, AsyncClient} x {sync, coroutine targets (asyncio '
                    'classes)} with canonical names; names / arguments are '
                    'sampled by Hypothesis on top')
RULE = ('Every cell of the shape space above is executed (enumeration), and '
        'Hypothesis samples cells with generated namespace names, event '
        "names (incl. '*', names with spaces / unicode, prefixes of each "
        'other) and argument lists. The event is delivered through '
        '_trigger_event and, on the servers, also as a real EVENT / CONNECT '
        '/ DISCONNECT frame; the chosen target may raise or (coroutine) end '
        'with CancelledError, after which no other target may be tried; '
        'sampled cells may mix sync and coroutine targets and may grow the '
        'registry between two dispatches of the same event. '
        'Oracle: resolve() - the documented order written '
        'from the property text - names the single target and its exact '
        'argument tuple; the invocation log must contain exactly that entry '
        '(or none). Non-trivial: >=2 candidate targets present, or the '
        'unrelated-handler flag set.'
        ' Servers are configured with namespaces="*" or with a list (the judged namespace and a second one that has handlers of its own for the judged event and a catch-all).'
        ' Every function target can be registered twice, an earlier handler first: only the last registration may run.')
ASSUMPTIONS = [
    "for an event literally named '*' the per-event targets coincide with "
    'the catch-all registry keys, so such cells are generated without them',
    'class-based targets need an on_<event> attribute to be invoked',
]
BUDGET = {'quick': 12000, 'thorough': 150000}
FLOOR = {'quick': 800, 'thorough': 20000}

KINDS = ['h', 'hc', 'sh', 'sc', 'cls', 'scls']
CLASSES = ['Server', 'AsyncServer', 'Client', 'AsyncClient']


def cells():
    for bits in itertools.product([False, True], repeat=6):
        for reserved in (False, True):
            for unrelated in (False, True, 'star', 'both'):
                for cls in CLASSES:
                    for coro in ((False, True) if cls.startswith('Async')
                                 else (False,)):
                        yield {'present': [k for k, b in zip(KINDS, bits)
                                           if b],
                               'reserved': reserved, 'unrelated': unrelated,
                               'cls': cls, 'coro': coro}


def enumerate_cases(tier):
    for c in cells():
        ev = ('connect' if len(c['present']) % 2 else 'disconnect') \
            if c['reserved'] else 'my event'
        yield dict(c, ns='/foo', event=ev, args=[1, {'a': b'x'}],
                   method=True, frame=True)
        if c['reserved'] and c['cls'].endswith('Client'):
            yield dict(c, ns='/foo', event='connect_error', args=['e'],
                       method=True, frame=False)


def strategy(tier):
    cl = list(cells())
    ns = st.one_of(st.sampled_from(['/', '/foo', '/a/b', '/é']),
                   S.text_st(max_size=5).map(lambda s: '/' + s.replace(
                       ',', '')))
    ev = st.one_of(st.sampled_from(['a', 'ab', 'my event', 'message', '',
                                    'unrelated', '*', 'é', 'on_x', 'json']),
                   S.text_st(max_size=6))
    rev = st.sampled_from(['connect', 'disconnect', 'connect_error'])
    return st.fixed_dictionaries({
        'cell': st.integers(0, len(cl) - 1), 'ns': ns, 'event': ev,
        'revent': rev, 'args': st.lists(S.tree_st(max_leaves=3), max_size=3),
        'method': st.sampled_from([True, True, False]),
        'frame': st.booleans(),
        # the chosen target fails after it was invoked: it raises, or (a
        # coroutine target) ends with CancelledError - no second target may
        # be tried
        'fault': st.sampled_from([None, None, None, 'raise', 'cancel']),
        # the function handler of the judged event is also registered as the
        # namespace's disconnect handler, with a fixed (old-style) arity, and
        # a disconnect is dispatched first: nothing of it may stick
        'shared_legacy': st.booleans(),
        # per kind of target: sync where the cell says coroutine and the
        # other way round (asyncio classes)
        'mixed': st.one_of(st.just([False] * 6),
                           st.lists(st.booleans(), min_size=6, max_size=6)),
        # the registry grows: the targets marked here are registered first,
        # the event is dispatched once, then the others are registered and
        # the event is dispatched again
        'early': st.one_of(st.none(), st.lists(st.booleans(), min_size=6,
                                               max_size=6)),
        # servers: the served namespaces are configured as a list (the
        # judged namespace and one more, which has handlers of its own for
        # the same event and a catch-all) instead of '*'
        'nslist': st.sampled_from([False, False, True]),
        # every function target is registered twice: an earlier handler
        # first, then the one that counts
        'rereg': st.sampled_from([False, False, True])}).map(
            lambda d: _norm(d, cl))


def _norm(d, cl):
    c = dict(cl[d['cell']])
    c.update(ns=d['ns'], args=d['args'], method=d['method'],
             frame=d['frame'], fault=d.get('fault'),
             shared_legacy=d.get('shared_legacy', False),
             mixed=d.get('mixed'), early=d.get('early'),
             nslist=d.get('nslist', False), rereg=d.get('rereg', False))
    if c['reserved']:
        ev = d['revent']
        if ev == 'connect_error' and not c['cls'].endswith('Client'):
            ev = 'connect'
        c['event'] = ev
    else:
        ev = d['event']
        if ev in ('connect', 'disconnect', 'connect_error',
                  '__disconnect_final', 'unrelated_ev'):
            ev = 'x' + ev
        c['event'] = ev
        if ev == '*':
            c['present'] = [k for k in c['present'] if k not in ('h', 'sh')]
    if c['ns'] == '*':
        c['ns'] = '/*'
    return c


def resolve(present, ns, event, args, reserved, method):
    """The documented order. Returns (target kind, argument tuple) or
    None."""
    p = set(present)
    if 'h' in p:
        return 'h', tuple(args)
    if 'hc' in p and not reserved:
        return 'hc', (event,) + tuple(args)
    if 'sh' in p:
        return 'sh', (ns,) + tuple(args)
    if 'sc' in p and not reserved:
        return 'sc', (event, ns) + tuple(args)
    if 'cls' in p:
        return ('cls', tuple(args)) if method else None
    if 'scls' in p:
        return ('scls', (ns,) + tuple(args)) if method else None
    return None


def check_case(case):
    socketio = core.bootstrap()
    cls = case['cls']
    aio = cls.startswith('Async')
    server = cls.endswith('Server')
    loop = DetLoop() if aio else None
    try:
        return _run(case, socketio, cls, aio, server, loop)
    finally:
        if loop is not None:
            loop.shutdown()


def _run(case, socketio, cls, aio, server, loop):
    ns, event, args = case['ns'], case['event'], case['args']
    present = case['present']
    log = []

    fault = case.get('fault')
    if fault == 'cancel' and not (case['coro'] and aio):
        fault = 'raise'

    mixed = case.get('mixed') or [False] * 6

    def mk(kind):
        flip = kind in KINDS and mixed[KINDS.index(kind)]
        if aio and bool(case['coro']) != bool(flip):
            async def h(*a):
                log.append((kind, a))
                if fault == 'cancel' and kind != 'unrelated':
                    import asyncio
                    raise asyncio.CancelledError()
                if fault and kind != 'unrelated':
                    raise RuntimeError(FAULT)
                return 'ret-' + kind
        else:
            def h(*a):
                log.append((kind, a))
                if fault and kind != 'unrelated':
                    raise RuntimeError(FAULT)
                return 'ret-' + kind
        return h

    if server:
        kw = {'async_mode': 'asgi'} if aio else {'async_mode': 'threading'}
        other_ns = '/other-ns' if ns != '/other-ns' else '/other-ns2'
        obj = getattr(socketio, cls)(
            namespaces=[ns, other_ns] if case.get('nslist') else '*', **kw)
        nsbase = socketio.AsyncNamespace if aio else socketio.Namespace
    else:
        obj = getattr(socketio, cls)(handle_sigint=False)
        nsbase = socketio.AsyncClientNamespace if aio else \
            socketio.ClientNamespace
    shared = bool(case.get('shared_legacy')) and 'h' in present and \
        not case['reserved'] and not case.get('fault') and event != '*'
    if shared:
        n_args = len(args)

        if case['coro'] and aio:
            async def fixed(*a):
                if len(a) != n_args:
                    raise TypeError('takes %d positional arguments'
                                    % n_args)
                log.append(('h', a))
                return 'ret-h'
        else:
            def fixed(*a):
                if len(a) != n_args:
                    raise TypeError('takes %d positional arguments'
                                    % n_args)
                log.append(('h', a))
                return 'ret-h'
        obj.on(event, fixed, namespace=ns)
        obj.on('disconnect', fixed, namespace=ns)

    rereg = bool(case.get('rereg'))

    def on(ev_, kind, ns_):
        if rereg:
            # registered before, then replaced: the last registration counts
            obj.on(ev_, mk('replaced'), namespace=ns_)
        obj.on(ev_, mk(kind), namespace=ns_)

    def register(kinds):
        if 'h' in kinds and not shared:
            on(event, 'h', ns)
        if 'hc' in kinds:
            on('*', 'hc', ns)
        if 'sh' in kinds:
            on(event, 'sh', '*')
        if 'sc' in kinds:
            on('*', 'sc', '*')
        for kind, reg in (('cls', ns), ('scls', '*')):
            if kind in kinds:
                o = nsbase(reg)
                if case['method']:
                    setattr(o, 'on_' + event, mk(kind))
                obj.register_namespace(o)

    if case['unrelated'] in (True, 'both'):
        obj.on('unrelated_ev', mk('unrelated'), namespace=ns)
    if case['unrelated'] in ('star', 'both'):
        obj.on('unrelated_ev', mk('unrelated'), namespace='*')

    def run(x):
        return loop.run(x) if aio else x

    if server and case.get('nslist'):
        # (registered first, so that nothing of it can shadow a target)
        obj.on(event, mk('other-ns'), namespace=other_ns)
        if event != '*':
            obj.on('*', mk('other-ns'), namespace=other_ns)

    reserved = case['reserved']
    early = None
    if case.get('early') and not shared and not fault:
        early = [k for k, b in zip(KINDS, case['early'])
                 if b and k in present]
        if len(early) == len(present):
            early = None
    grown = False
    if early is not None:
        register(early)
        want = resolve(early, ns, event, args, reserved, case['method'])
    else:
        register(present)
        want = resolve(present, ns, event, args, reserved, case['method'])

    def compare(what, wargs_prefix=()):
        if want is None:
            if log:
                raise Violation('invoked-unexpectedly',
                                '%s: %r' % (what, log))
            return
        kind, wargs = want
        if kind in ('h', 'cls'):
            wargs = tuple(wargs_prefix) + wargs
        elif kind == 'hc':
            wargs = wargs[:1] + tuple(wargs_prefix) + wargs[1:]
        elif kind in ('sh', 'scls'):
            wargs = wargs[:1] + tuple(wargs_prefix) + wargs[1:]
        else:
            wargs = wargs[:2] + tuple(wargs_prefix) + wargs[2:]
        if len(log) != 1:
            raise Violation('invocation-count',
                            '%s: %d invocations %r, expected %s'
                            % (what, len(log), log[:3], kind))
        if log[0][0] != kind:
            k2 = 'wrong-target'
            if not server and kind in ('sh', 'sc', 'scls'):
                k2 = 'wrong-target'
            raise Violation(k2, '%s: %s ran, expected %s'
                            % (what, log[0][0], kind))
        if not strict_eq(tuple(log[0][1]), wargs):
            raise Violation('wrong-arguments', '%s: %s%r, expected %r'
                            % (what, kind, log[0][1], wargs))

    if shared:
        # an earlier disconnect: (args..., reason) does not fit, the
        # documented fallback calls the handler without the reason
        try:
            run(obj._trigger_event('disconnect', ns, *args, 'a reason'))
        except Exception as e:
            if isinstance(e, TypeError) and 'positional arguments' in str(e):
                raise Violation('legacy-disconnect-fallback', 'the old-style '
                                'handler was not called with the %d arguments '
                                'before the reason: %r' % (len(args), e))
            v = core.as_violation(e)
            if v is None:
                raise
            raise v
        if [tuple(x[1]) for x in log] != [tuple(args)]:
            raise Violation('legacy-disconnect-fallback',
                            'disconnect dispatched to the old-style handler: '
                            '%r' % (log,))
        log.clear()
    if early is not None:
        # the event on the smaller registry, then the registry grows
        try:
            ret = run(obj._trigger_event(event, ns, *args))
        except Exception as e:
            v = core.as_violation(e)
            if v is None:
                raise
            raise v
        compare('_trigger_event before the registry grew')
        if want is not None and ret != 'ret-' + want[0]:
            raise Violation('return-value-lost', 'before the registry '
                            'grew: %r' % (ret,))
        register([k for k in present if k not in early])
        w2 = resolve(present, ns, event, args, reserved, case['method'])
        grown = w2 != want
        want = w2
        log.clear()
    faulted = False
    try:
        ret = run(obj._trigger_event(event, ns, *args))
    except Exception as e:
        if fault and isinstance(e, RuntimeError) and str(e) == FAULT:
            faulted = True
            ret = None
        elif shared and isinstance(e, TypeError) and \
                'positional arguments' in str(e):
            raise Violation('wrong-arguments', 'the handler was not called '
                            'with the %d event arguments: %r'
                            % (len(args), e))
        else:
            v = core.as_violation(e)
            if v is None:
                raise
            raise v
    try:
        compare('_trigger_event')
    except Violation as v:
        if v.kind in ('invocation-count', 'invoked-unexpectedly',
                      'wrong-target') and _is_f3(case, log):
            if KF_CLIENT in KNOWN:
                labels = _labels(case)
                labels['kf:' + KF_CLIENT] = True
                return labels
            raise Violation(KF_CLIENT, v.detail)
        raise
    if fault:
        if want is not None and fault == 'raise' and not faulted:
            raise Violation('handler-exception-swallowed', repr(ret))
        if want is not None and ret is not None:
            raise Violation('return-value-after-fault', repr(ret))
        labels = _labels(case)
        labels['target_fault'] = fault
        if want is not None:
            labels['nontrivial'] = True
        return labels
    if want is not None and ret != 'ret-' + want[0]:
        raise Violation('return-value-lost', repr(ret))
    # the same event as a real frame (servers, ordinary events)
    if server and case.get('frame') and not reserved and '?' not in ns \
            and not shared:
        from ..eio_server import ServerHarness
        h = ServerHarness(aio=aio, loop=loop, server=obj)
        t = h.open()
        h.feed(t, '0' + (ns + ',' if ns != '/' else ''))
        r = wire.Reader()
        got = r.read(h.drain_msgs(t))
        if len(got) != 1 or got[0]['type'] != wire.CONNECT:
            raise Violation('frame-connect', repr(got))
        sid = got[0]['data']['sid']
        log.clear()
        for f in wire.frames(wire.EVENT, ns, 9, [event] + list(args)):
            h.feed(t, f)
        h.settle()
        compare('EVENT frame', (sid,))
        got = r.read(h.drain_msgs(t))
        wack = [] if want is None and not (
            {'cls', 'scls'} & set(present)) else ['ack']
        if len(got) != len(wack):
            raise Violation('frame-ack', 'want %r got %r' % (wack, got))
    labels = _labels(case)
    if early is not None:
        labels['registry_grew'] = True
        if grown:
            labels['target_changed_after_growth'] = True
    if aio and any(mixed):
        labels['sync_and_coroutine_targets'] = True
    return labels


KF_CLIENT = 'client-skips-catch-all-namespace'


def _is_f3(case, log):
    """Client: the namespace has handlers of its own, so the catch-all
    namespace's function handlers were not consulted."""
    if case['cls'].endswith('Server'):
        return False
    p = set(case['present'])
    ns_has = bool(p & {'h', 'hc'}) or case['unrelated'] in (True, 'both')
    return ns_has and bool(p & {'sh', 'sc'}) and 'h' not in p and not (
        'hc' in p and not case['reserved'])


def _labels(case):
    p = case['present']
    return {'cls': case['cls'], 'reserved': case['reserved'],
            'npresent': len(p),
            'nontrivial': len(p) >= 2 or bool(case['unrelated'])}


def classify(case, v):
    return v.kind
