"""C17 Class-based namespace helpers use their own namespace and forward
every argument."""
import inspect
import itertools

from hypothesis import strategies as st

from .. import core
from ..core import Violation
from ..detloop import DetLoop

PID = 'C17'
TFAULT = 'underlying method fault'
KNOWN = set()
KF_IQ = 'disconnect-helper-lacks-ignore-queue'
EXHAUSTIVE = True
EXHAUSTIVE_SCOPE = ('{Namespace, AsyncNamespace, ClientNamespace, '
                    'AsyncClientNamespace} x every helper found by '
                    'introspection x every subset of its optional parameters '
                    'x {all-keyword, maximal positional prefix by the helper\'s own '
                    'signature, maximal positional prefix by the underlying '
                    'method\'s signature}, canonical '
                    'distinct values')
RULE = ('The namespace object is registered with a recorder whose methods '
        'have the real signatures of the current Server/Client classes '
        '(inspect.signature().bind). Every cell of the space above is '
        'executed; Hypothesis additionally samples cells with generated '
        'registration namespaces, explicit namespace overrides and values '
        'including falsy-but-meaningful ones (0, "", [], False, 0.0, None), '
        'objects registered for the catch-all namespace, and objects with a '
        'history (an event dispatched to them, an earlier helper call with an '
        'explicit namespace, a registration refused by a server / client of '
        'the other kind, an earlier registration with another server / '
        'client of the same kind) before the judged call. '
        'Oracle: the same-named method is called exactly once; every '
        'argument the caller gave arrives unchanged at the parameter of the '
        'same name; an omitted namespace arrives as the registration '
        'namespace, an explicit one as given; the recorder\'s sentinel '
        'result is returned unchanged. Non-trivial: >=2 optional arguments '
        'given, or an explicit falsy value.')
ASSUMPTIONS = [
    'defaults of omitted optional arguments other than namespace are not '
    'judged',
    'parameters the underlying method does not have (ClientNamespace.send '
    'room) are not passed',
    'an explicit namespace override is a non-empty string',
]
BUDGET = {'quick': 12000, 'thorough': 200000}
FLOOR = {'quick': 800, 'thorough': 5000}

SIDES = {
    'Namespace': ('Server', False), 'AsyncNamespace': ('AsyncServer', True),
    'ClientNamespace': ('Client', False),
    'AsyncClientNamespace': ('AsyncClient', True),
}
_cells = {}


def helpers(socketio, nscls_name):
    nscls = getattr(socketio, nscls_name)
    target = getattr(socketio, SIDES[nscls_name][0])
    out = []
    for name, fn in inspect.getmembers(nscls, inspect.isfunction):
        if name.startswith('_') or name in ('trigger_event',
                                            'is_asyncio_based'):
            continue
        if not hasattr(target, name):
            continue
        out.append(name)
    return sorted(out)


def params(socketio, nscls_name, helper):
    """(required, optional) parameter names of the helper, restricted to the
    parameters the underlying method has."""
    nscls = getattr(socketio, nscls_name)
    target = getattr(socketio, SIDES[nscls_name][0])
    hs = inspect.signature(getattr(nscls, helper))
    ts = inspect.signature(getattr(target, helper))
    req, opt = [], []
    for p in list(hs.parameters.values())[1:]:
        if p.name not in ts.parameters:
            continue
        if p.default is inspect.Parameter.empty:
            req.append(p.name)
        else:
            opt.append(p.name)
    # what the underlying method accepts and the helper does not even name
    for p in list(ts.parameters.values())[1:]:
        if p.name not in hs.parameters and p.kind in (
                p.POSITIONAL_OR_KEYWORD, p.KEYWORD_ONLY):
            opt.append(p.name)
    return req, opt


def cells():
    socketio = core.bootstrap()
    if 'all' not in _cells:
        out = []
        for nscls in SIDES:
            for h in helpers(socketio, nscls):
                req, opt = params(socketio, nscls, h)
                for r in range(len(opt) + 1):
                    for sub in itertools.combinations(opt, r):
                        for style in ('kw', 'pos', 'tpos'):
                            out.append({'nscls': nscls, 'helper': h,
                                        'given': list(sub), 'style': style})
        _cells['all'] = out
    return _cells['all']


def enumerate_cases(tier):
    seen = set()
    for c in cells():
        vals = {p: 'v_' + p for p in c['given'] if p != 'namespace'}
        if 'namespace' in c['given']:
            vals['namespace'] = '/other'
        yield dict(c, reg='/reg', vals=vals)
        if (c['nscls'], c['helper']) not in seen and not c['given'] and \
                c['style'] == 'kw':
            # every helper once with an underlying method that fails, and
            # (coroutines) one that is cancelled
            seen.add((c['nscls'], c['helper']))
            for tr in ('RuntimeError', 'TypeError', 'Cancelled'):
                yield dict(c, reg='/reg', vals={}, target_raises=tr)


def strategy(tier):
    cl = cells()
    val = st.one_of(
        st.sampled_from([0, '', [], False, 0.0, None, (), {}]),
        st.sampled_from([0, '', [], False, 0.0, None]),
        st.integers(), st.text(max_size=4), st.lists(st.integers(),
                                                     max_size=2),
        st.dictionaries(st.text(max_size=2), st.integers(), max_size=2))
    return st.fixed_dictionaries({
        'cell': st.integers(0, len(cl) - 1),
        'reg': st.sampled_from(['/', '/reg', '/a/b', '/é', None, '*']),
        # what happened to the namespace object before the judged call: an
        # event dispatched to it, or an earlier helper call with an explicit
        # namespace (nothing of it may stick)
        'history': st.lists(st.sampled_from(['event', 'helper_ns',
                                             'bad_register']),
                            max_size=2),
        # the object was registered with another server / client of the same
        # kind before (say, the application built a new server object): it
        # works for the one it was registered with last
        'earlier_owner': st.booleans(),
        # the underlying method fails: the helper passes the exception on
        # and does not try anything else
        'target_raises': st.sampled_from([None, None, None, 'TypeError',
                                          'RuntimeError', 'Cancelled']),
        'ns_override': st.sampled_from(['/other', '/', '/reg', '/x y']),
        'values': st.lists(val, min_size=8, max_size=8)}).map(
        lambda d: _norm(d, cl))


def _norm(d, cl):
    c = dict(cl[d['cell']])
    vals = {}
    for i, p in enumerate(c['given']):
        vals[p] = d['ns_override'] if p == 'namespace' else d['values'][i]
    c['vals'] = vals
    c['reg'] = d['reg']
    c['history'] = d.get('history', [])
    c['earlier_owner'] = d.get('earlier_owner', False)
    c['target_raises'] = d.get('target_raises')
    return c


def check_case(case):
    socketio = core.bootstrap()
    nscls_name = case['nscls']
    target_name, aio = SIDES[nscls_name]
    target = getattr(socketio, target_name)
    helper = case['helper']
    req, opt = params(socketio, nscls_name, helper)
    calls = []
    SENT = object()
    armed = [None]

    class Recorder:
        pass

    def mk(name):
        sig = inspect.signature(getattr(target, name))
        is_coro = inspect.iscoroutinefunction(getattr(target, name))

        def rec(self, *a, **k):
            b = sig.bind(self, *a, **k)
            calls.append((name, dict(b.arguments)))
            if armed[0] == 'Cancelled':
                # (the task that waits in the underlying coroutine is
                # cancelled)
                import asyncio
                raise asyncio.CancelledError(TFAULT)
            if armed[0]:
                raise {'TypeError': TypeError,
                       'RuntimeError': RuntimeError}[armed[0]](TFAULT)
            return SENT
        if is_coro:
            async def arec(self, *a, **k):
                return rec(self, *a, **k)
            return arec
        return rec

    for name, fn in inspect.getmembers(target, inspect.isfunction):
        if not name.startswith('_'):
            setattr(Recorder, name, mk(name))
    recorder = Recorder()
    nscls = getattr(socketio, nscls_name)
    reg = case['reg']
    evlog = []
    if aio:
        class NS(nscls):
            async def on_my_event(self, *a):
                evlog.append(a)
    else:
        class NS(nscls):
            def on_my_event(self, *a):
                evlog.append(a)
    ns = NS(reg) if reg is not None else NS()
    reg_eff = reg or '/'
    if case.get('earlier_owner'):
        kw_e = {'Server': {'async_mode': 'threading'},
                'AsyncServer': {'async_mode': 'asgi'}}.get(target_name, {})
        target(**kw_e).register_namespace(ns)
    if target_name.endswith('Server'):
        ns._set_server(recorder)
    else:
        ns._set_client(recorder)
    vals = dict(case['vals'])
    given = list(case['given'])
    reqvals = {p: 'r_' + p for p in req}

    def settle(r):
        if inspect.isawaitable(r):
            lp = DetLoop()
            try:
                return lp.run(r)
            finally:
                lp.shutdown()
        return r
    for hst in case.get('history', []):
        if hst == 'event':
            a = ('sid-1', 1) if target_name.endswith('Server') else (1,)
            if reg == '*':
                a = ('/evns',) + a
            settle(ns.trigger_event('my_event', *a))
            if len(evlog) < 1:
                raise Violation('history-event-not-dispatched', repr(a))
        elif hst == 'bad_register':
            # a server / client of the other kind refuses the object: it
            # stays with the one it is registered with
            other = {'Server': 'AsyncServer', 'AsyncServer': 'Server',
                     'Client': 'AsyncClient', 'AsyncClient': 'Client'}[
                         target_name]
            kw_o = {'async_mode': 'threading'} if other == 'Server' else (
                {'async_mode': 'asgi'} if other == 'AsyncServer' else {})
            try:
                getattr(socketio, other)(**kw_o).register_namespace(ns)
            except ValueError:
                pass
            else:
                raise Violation('wrong-kind-registration-accepted', other)
        elif 'namespace' in opt:
            settle(getattr(ns, helper)(*[reqvals[p] for p in req],
                                       namespace='/prev'))
    del calls[:]
    pos = [reqvals[p] for p in req]
    kw = {}
    if case['style'] == 'pos':
        # maximal positional prefix of the optional parameters
        prefix = []
        hs = inspect.signature(getattr(nscls, helper))
        for hp in list(hs.parameters.values())[1 + len(req):]:
            if hp.name in given and hp.name in opt:
                prefix.append(hp.name)
            else:
                break   # not given, or a parameter that cannot be passed on
        pos += [vals[p] for p in prefix]
        for p in given:
            if p not in prefix:
                kw[p] = vals[p]
    elif case['style'] == 'tpos':
        # positional in the order of the underlying method's parameters: the
        # helper must mean the same thing by the same position (pinned
        # exception: ClientNamespace.send has a vestigial room parameter)
        if (nscls_name, helper) == ('ClientNamespace', 'send'):
            kw = {p: vals[p] for p in given}
        else:
            ts = inspect.signature(getattr(target, helper))
            prefix = []
            for tp in list(ts.parameters.values())[1 + len(req):]:
                if tp.name in given:
                    prefix.append(tp.name)
                else:
                    break
            pos += [vals[p] for p in prefix]
            kw = {p: vals[p] for p in given if p not in prefix}
    else:
        kw = {p: vals[p] for p in given}
    armed[0] = case.get('target_raises')
    if helper == 'session':
        armed[0] = None     # returns a context manager, calls nothing yet
    if armed[0] == 'Cancelled' and not inspect.iscoroutinefunction(
            getattr(target, helper)):
        armed[0] = 'RuntimeError'
    try:
        r = getattr(ns, helper)(*pos, **kw)
        if inspect.isawaitable(r):
            loop = DetLoop()
            try:
                r = loop.run(r)
            finally:
                loop.shutdown()
    except (TypeError, RuntimeError, BaseException) as e:
        if not isinstance(e, (TypeError, RuntimeError)) and \
                type(e).__name__ != 'CancelledError':
            raise
        if armed[0] and str(e) == TFAULT:
            if len(calls) != 1 or calls[0][0] != helper:
                raise Violation('retried-after-target-failure',
                                '%s.%s: the failing %s was entered %d times: '
                                '%r' % (nscls_name, helper, helper,
                                        len(calls), calls))
            r = SENT
        elif nscls_name in ('Namespace', 'AsyncNamespace') and \
                helper == 'disconnect' and 'ignore_queue' in given and \
                isinstance(e, TypeError) and (
                    'ignore_queue' in str(e) or 'positional' in str(e)):
            det = ('%s.disconnect(%r, %r): %r - Server.disconnect accepts '
                   'ignore_queue, the helper does not' % (nscls_name, pos,
                                                          kw, e))
            if KF_IQ in KNOWN:
                return {'nscls': nscls_name, 'helper': helper,
                        'kf:' + KF_IQ: True, 'nontrivial': False}
            raise Violation(KF_IQ, det)
        else:
            raise Violation('helper-raised', '%s.%s(%r, %r): %r'
                            % (nscls_name, helper, pos, kw, e))
    else:
        if armed[0]:
            raise Violation('target-failure-swallowed', '%s.%s returned %r '
                            'although %s raised' % (nscls_name, helper, r,
                                                    helper))
    what = '%s.%s(*%r, **%r)' % (nscls_name, helper, pos, kw)
    if len(calls) != 1 or calls[0][0] != helper:
        raise Violation('wrong-method', '%s -> %r' % (what, calls))
    got = calls[0][1]
    if r is not SENT:
        raise Violation('result-not-passed-back', '%s returned %r'
                        % (what, r))

    def same(a, b):
        return a is b or (type(a) is type(b) and a == b)
    for p, v in list(reqvals.items()) + list(vals.items()):
        if p == 'namespace':
            continue
        if p not in got:
            raise Violation('argument-dropped', '%s: %s missing in %r'
                            % (what, p, got))
        if not same(got[p], v):
            raise Violation('argument-changed', '%s: %s arrived as %r'
                            % (what, p, got[p]))
    tsig = inspect.signature(getattr(target, helper))
    if 'namespace' in tsig.parameters:
        want_ns = vals['namespace'] if 'namespace' in vals else reg_eff
        if got.get('namespace') != want_ns:
            raise Violation('namespace-wrong', '%s (registered %r): '
                            'namespace arrived as %r, expected %r'
                            % (what, reg_eff, got.get('namespace'), want_ns))
    falsy = any(p != 'namespace' and not v and v is not None
                for p, v in vals.items())
    return {'nscls': nscls_name, 'helper': helper,
            'ngiven': len(given), 'explicit_falsy': falsy,
            'history': len(case.get('history', [])),
            'reg_star': reg == '*',
            'earlier_owner': bool(case.get('earlier_owner')),
            'nontrivial': len(given) >= 2 or falsy or any(
                v is None for p, v in vals.items() if p != 'namespace')}


def classify(case, v):
    return v.kind
