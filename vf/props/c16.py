"""C16 User sessions are private to one client connection and namespace."""
import copy

from hypothesis import strategies as st

from .. import strategies as S
from .. import wire
from ..case import strict_eq
from ..core import Violation
from ..world import World

PID = 'C16'
RULE = ('Model-based stateful testing: generated histories over 2-4 '
        'transports x 3 namespaces of connect, save_session(value), '
        'get_session, session() blocks with generated mutations (set / '
        'delete / nested update), client DISCONNECT, server.disconnect, '
        'nested session() blocks for the same client, a session() block '
        'still open while its client leaves and another takes its place on '
        'the same transport and namespace, a reconnection to the namespace '
        'in the gap right after the server has released the old client, '
        'transport loss and '
        'reconnects on the same transport (same or other '
        'namespace) or a new one, and connection requests to a namespace '
        'whose handler refuses (False / ConnectionRefusedError, optionally '
        'after saving a session; always_connect on and off) beside live '
        'sessions of the same transport; both servers. Oracle: a dict model keyed '
        'by the connection (sid): every read equals the model, a freshly '
        'issued sid reads {}, nothing leaks across clients or namespaces. '
        'Non-trivial: a reconnect of the same (transport, namespace) after a '
        'save followed by a read, or two connections holding different '
        'non-empty values simultaneously.'
        ' A CONNECT for a namespace the transport is connected to already is sent as the duplicate it is: refused, the session of the connected client unchanged.')
ASSUMPTIONS = [
    'session values are JSON-like dicts (the documented type)',
    'reads use get_session() and session(); values are compared by deep '
    'type-strict equality',
]
BUDGET = {'quick': 8000, 'thorough': 80000}
FLOOR = {'quick': 150, 'thorough': 5000}
NSS = ['/', '/a', '/b']
KNOWN = set()
# a new connection on the same (transport, namespace) reads the session the
# previous connection on that slot left behind
KF_INHERIT = 'session-survives-namespace-reconnect'


def strategy(tier):
    big = tier == 'thorough'
    ci = st.integers(0, 7)
    val = st.dictionaries(st.sampled_from(['u', 'k', 'n', 'x']),
                          S.tree_st(with_bytes=True, max_leaves=4),
                          max_size=3)
    mut = st.lists(st.one_of(
        st.fixed_dictionaries({'m': st.just('set'),
                               'k': st.sampled_from(['u', 'k', 'z']),
                               'v': S.tree_st(max_leaves=3)}),
        st.fixed_dictionaries({'m': st.just('del'),
                               'k': st.sampled_from(['u', 'k', 'z'])}),
        st.fixed_dictionaries({'m': st.just('nest'),
                               'k': st.sampled_from(['u', 'n']),
                               'v': S.leaves_st()})), max_size=3)
    op = st.one_of(
        st.fixed_dictionaries({'op': st.just('connect'),
                               't': st.integers(0, 3),
                               'ns': st.integers(0, 2)}),
        st.fixed_dictionaries({'op': st.just('save'), 'c': ci, 'v': val}),
        st.fixed_dictionaries({'op': st.just('save'), 'c': ci, 'v': val}),
        st.fixed_dictionaries({'op': st.just('get'), 'c': ci}),
        st.fixed_dictionaries({'op': st.just('block'), 'c': ci, 'muts': mut}),
        # the block is left by an exception after its modifications
        st.fixed_dictionaries({'op': st.just('block'), 'c': ci, 'muts': mut,
                               'raises': st.just(True)}),
        st.fixed_dictionaries({'op': st.just('nested'), 'c': ci,
                               'inner': S.leaves_st(), 'outer': S.leaves_st(),
                               'other': st.one_of(st.none(), ci)}),
        st.fixed_dictionaries({'op': st.just('end'), 'c': ci,
                               'how': st.sampled_from(['cdisc', 'sdisc',
                                                       'lose'])}),
        st.fixed_dictionaries({'op': st.just('reconnect'), 'j': ci,
                               'same': st.booleans()}),
        st.fixed_dictionaries({'op': st.just('reconnect'), 'j': ci,
                               'same': st.just(True)}),
        # a session() block is still open (its handler is suspended, or busy)
        # while its client leaves the namespace, a new client takes the same
        # place on the same transport and saves a session of its own
        st.fixed_dictionaries({'op': st.just('straddle'), 'c': ci,
                               'muts': mut, 'v': val,
                               'how': st.sampled_from(['cdisc', 'sdisc'])}),
        # the client leaves the namespace, and right after the server has
        # released it (another thread / task gets its turn there) the same
        # transport connects to the namespace again and saves a session
        st.fixed_dictionaries({'op': st.just('gap_reconnect'), 'c': ci,
                               'v': val,
                               'how': st.sampled_from(['cdisc', 'sdisc'])}),
        # the transport asks for a namespace whose connect handler refuses
        st.fixed_dictionaries({'op': st.just('refused'),
                               't': st.integers(0, 3)}),
    )
    return st.fixed_dictionaries({
        'aio': st.booleans(),
        'always_connect': st.booleans(),
        'refuse_by': st.sampled_from(['false', 'raise', 'save+raise']),
        'init': st.lists(st.tuples(st.integers(0, 2), st.integers(0, 2)),
                         min_size=2, max_size=5),
        'ops': st.lists(op, min_size=4, max_size=70 if big else 30)})


def check_case(case):
    w = World(aio=case['aio'], namespaces=NSS + ['/ref'],
              always_connect=case.get('always_connect', False))
    try:
        return _run(case, w)
    finally:
        w.close()


def _run(case, w):
    sio = w.sio
    aio = case['aio']
    for _ in range(3):
        w.open()
    model = {}      # client index -> dict
    labels = {'aio': aio, 'nontrivial': False}
    saved_then_gone = set()   # (t, ns) that had a non-empty session and ended
    watch = set()             # client indices reconnected onto such a slot
    touched = set()           # client indices that were ever written
    slot_last = {}            # (t, ns) -> last session value of an ended owner

    def connect(t, ns):
        ci, pkts = w.connect(t, ns)
        if ci is None:
            raise Violation('connect-refused', repr(pkts))
        model[ci] = {}
        if (t, ns) in saved_then_gone:
            watch.add(ci)
        return ci

    import socketio as _sio_mod
    how = case.get('refuse_by', 'false')
    if aio:
        async def refuse(sid, environ, auth=None):
            if how == 'save+raise':
                await sio.save_session(sid, {'tmp': 1}, namespace='/ref')
            if how != 'false':
                raise _sio_mod.exceptions.ConnectionRefusedError('no')
            return False
    else:
        def refuse(sid, environ, auth=None):
            if how == 'save+raise':
                sio.save_session(sid, {'tmp': 1}, namespace='/ref')
            if how != 'false':
                raise _sio_mod.exceptions.ConnectionRefusedError('no')
            return False
    sio.on('connect', refuse, namespace='/ref')

    for t, n in case['init']:
        if w.client_on(t, NSS[n]) is None:
            connect(t, NSS[n])

    def read(ci, how):
        c = w.clients[ci]
        if how == 'get':
            got = w.do(sio.get_session(c['sid'], namespace=c['ns']))
        else:
            got = None
            if aio:
                async def blk():
                    async with sio.session(c['sid'],
                                           namespace=c['ns']) as s:
                        return copy.deepcopy(s)
                got = w.do(blk())
            else:
                with sio.session(c['sid'], namespace=c['ns']) as s:
                    got = copy.deepcopy(s)
        if not strict_eq(got, model[ci]):
            kind = 'session-mismatch'
            if ci not in touched and got:
                kind = 'fresh-session-not-empty'
                prev = slot_last.get((c['t'], c['ns']))
                if ci in watch and prev is not None and strict_eq(got, prev):
                    kind = KF_INHERIT
                    if kind in KNOWN:
                        labels['kf:' + kind] = True
                        model[ci] = copy.deepcopy(got)
                        touched.add(ci)
                        return
            raise Violation(kind, 'client %d (%s %s): read %r, model %r'
                            % (ci, c['t'], c['ns'], got, model[ci]))
        if ci in watch:
            labels['nontrivial'] = True
            labels['read_after_slot_reuse'] = True

    def ended(ci):
        c = w.clients[ci]
        if model.get(ci):
            saved_then_gone.add((c['t'], c['ns']))
            slot_last[(c['t'], c['ns'])] = copy.deepcopy(model[ci])
        model.pop(ci, None)

    for step, op in enumerate(case['ops']):
        k = op['op']
        lv = w.live()
        if k == 'connect':
            t, ns = op['t'] % len(w.t), NSS[op['ns']]
            if w.t_alive[t] and w.client_on(t, ns) is None:
                ci = connect(t, ns)
                read(ci, 'get')
            elif w.t_alive[t]:
                # a second CONNECT for a namespace that the transport is
                # connected to already: refused, and the session of the
                # client that is connected is what it was
                cur = w.client_on(t, ns)
                ci2, pkts = w.connect(t, ns)
                if ci2 is not None or [p['type'] for p in pkts] != [
                        wire.CONNECT_ERROR]:
                    raise Violation('duplicate-connect-not-refused',
                                    repr(pkts))
                read(cur, 'get')
                if model.get(cur):
                    labels['duplicate_connect_beside_session'] = True
                    labels['nontrivial'] = True
            continue
        if k == 'refused':
            t = op['t'] % len(w.t)
            if not w.t_alive[t]:
                continue
            ci, pkts = w.connect(t, '/ref')
            if ci is not None:
                w.mark_dead(ci)     # always_connect: CONNECT then DISCONNECT
            # the sessions of the transport's other namespaces are untouched
            mine = [i for i in w.live() if w.clients[i]['t'] == t]
            for i in mine:
                read(i, 'get')
            if any(model.get(i) for i in mine):
                labels['refused_connect_beside_session'] = True
                labels['nontrivial'] = True
            continue
        if k == 'reconnect':
            dead = [c for c in w.clients if not c['alive'] and
                    c['ns'] != '/ref']
            if not dead:
                continue
            c = dead[op['j'] % len(dead)]
            t = c['t']
            if not op['same'] or not w.t_alive[t]:
                t = w.open() if len(w.t) < 8 else t
            if w.t_alive[t] and w.client_on(t, c['ns']) is None:
                ci = connect(t, c['ns'])
                read(ci, 'get' if op['j'] % 2 else 'block')
            continue
        if not lv:
            continue
        ci = lv[op['c'] % len(lv)]
        c = w.clients[ci]
        if k == 'save':
            w.do(sio.save_session(c['sid'], copy.deepcopy(op['v']),
                                  namespace=c['ns']))
            model[ci] = copy.deepcopy(op['v'])
            touched.add(ci)
        elif k == 'get':
            read(ci, 'get')
        elif k == 'block':
            def mutate(s):
                for m in op['muts']:
                    if m['m'] == 'set':
                        s[m['k']] = copy.deepcopy(m['v'])
                    elif m['m'] == 'del':
                        s.pop(m['k'], None)
                    else:
                        d = s.get(m['k'])
                        if not isinstance(d, dict):
                            d = s[m['k']] = {}
                        d['inner'] = copy.deepcopy(m['v'])
            class _Left(Exception):
                pass
            if aio:
                async def blk():
                    async with sio.session(c['sid'],
                                           namespace=c['ns']) as s:
                        mutate(s)
                        if op.get('raises'):
                            raise _Left()
                try:
                    w.do(blk())
                except _Left:
                    labels['block_left_by_exception'] = True
            else:
                try:
                    with sio.session(c['sid'], namespace=c['ns']) as s:
                        mutate(s)
                        if op.get('raises'):
                            raise _Left()
                except _Left:
                    labels['block_left_by_exception'] = True
            mutate(model[ci])
            touched.add(ci)
            read(ci, 'get')
        elif k == 'gap_reconnect':
            eio_sid = w.t[c['t']]
            real = sio.manager.disconnect
            got = {}

            def after_release():
                sid2 = sio.manager.sid_from_eio_sid(eio_sid, c['ns'])
                if sid2 is not None and sid2 != c['sid']:
                    got['sid'] = sid2
            if aio:
                async def wrapped(sid_, namespace=None, **kw):
                    r = await real(sid_, namespace=namespace, **kw)
                    if sid_ == c['sid'] and 'done' not in got:
                        got['done'] = True
                        await sio._handle_connect(eio_sid, c['ns'], None)
                        after_release()
                        if 'sid' in got:
                            await sio.save_session(
                                got['sid'], copy.deepcopy(op['v']),
                                namespace=c['ns'])
                    return r
            else:
                def wrapped(sid_, namespace=None, **kw):
                    r = real(sid_, namespace=namespace, **kw)
                    if sid_ == c['sid'] and 'done' not in got:
                        got['done'] = True
                        sio._handle_connect(eio_sid, c['ns'], None)
                        after_release()
                        if 'sid' in got:
                            sio.save_session(got['sid'],
                                             copy.deepcopy(op['v']),
                                             namespace=c['ns'])
                    return r
            sio.manager.disconnect = wrapped
            try:
                if op['how'] == 'cdisc':
                    w.send(c['t'], wire.DISCONNECT, c['ns'])
                else:
                    w.do(sio.disconnect(c['sid'], namespace=c['ns']))
            finally:
                sio.manager.disconnect = real
            w.mark_dead(ci)
            ended(ci)
            w.recv_all()
            if 'sid' in got:
                w.clients.append({'t': c['t'], 'ns': c['ns'],
                                  'sid': got['sid'], 'alive': True})
                w.all_sids.append(got['sid'])
                cj = len(w.clients) - 1
                model[cj] = copy.deepcopy(op['v'])
                touched.add(cj)
                labels['reconnect_in_the_gap_after_release'] = True
                labels['nontrivial'] = True
                read(cj, 'get')
        elif k == 'straddle':
            def mutate(s):
                for m in op['muts']:
                    if m['m'] == 'set':
                        s[m['k']] = copy.deepcopy(m['v'])
                    elif m['m'] == 'del':
                        s.pop(m['k'], None)

            def inside():
                # the owner of the open block goes, a new client comes
                mutate(model[ci])
                if op['how'] == 'cdisc':
                    w.send(c['t'], wire.DISCONNECT, c['ns'])
                else:
                    w.do(sio.disconnect(c['sid'], namespace=c['ns']))
                w.mark_dead(ci)
                ended(ci)
                w.recv_all()
                cj = connect(c['t'], c['ns'])
                read(cj, 'get')
                w.do(sio.save_session(w.clients[cj]['sid'],
                                      copy.deepcopy(op['v']),
                                      namespace=c['ns']))
                model[cj] = copy.deepcopy(op['v'])
                touched.add(cj)
                return cj
            if aio:
                loop = w.h.loop
                gate = loop.create_future()

                async def blk():
                    async with sio.session(c['sid'],
                                           namespace=c['ns']) as s:
                        mutate(s)
                        await gate
                task = loop.spawn(blk())
                loop.run_until_idle()
                cj = inside()
                gate.set_result(None)
                loop.run_until_idle()
                if not task.done():
                    raise Violation('session-block-never-exits', '')
                task.exception()    # the block's owner is gone: not judged
            else:
                cm = sio.session(c['sid'], namespace=c['ns'])
                s = cm.__enter__()
                mutate(s)
                cj = inside()
                try:
                    cm.__exit__(None, None, None)
                except Exception:
                    pass            # the block's owner is gone: not judged
            labels['block_open_across_namespace_reconnect'] = True
            labels['nontrivial'] = True
            read(cj, 'get')
        elif k == 'nested':
            # a session() block opened while another block for the same
            # client and namespace is still open (a helper called from a
            # handler): what each block changed must be there after both
            # have exited
            oc = None
            if op['other'] is not None and len(lv) > 1:
                oc = w.clients[lv[op['other'] % len(lv)]]
                if oc is c:
                    oc = None
            if aio:
                async def blk():
                    async with sio.session(c['sid'],
                                           namespace=c['ns']) as outer:
                        async with sio.session(c['sid'],
                                               namespace=c['ns']) as inner:
                            inner['in'] = copy.deepcopy(op['inner'])
                        if oc is not None:
                            async with sio.session(
                                    oc['sid'], namespace=oc['ns']) as o2:
                                o2['side'] = 1
                        outer['out'] = copy.deepcopy(op['outer'])
                w.do(blk())
            else:
                with sio.session(c['sid'], namespace=c['ns']) as outer:
                    with sio.session(c['sid'], namespace=c['ns']) as inner:
                        inner['in'] = copy.deepcopy(op['inner'])
                    if oc is not None:
                        with sio.session(oc['sid'],
                                         namespace=oc['ns']) as o2:
                            o2['side'] = 1
                    outer['out'] = copy.deepcopy(op['outer'])
            model[ci]['in'] = copy.deepcopy(op['inner'])
            model[ci]['out'] = copy.deepcopy(op['outer'])
            touched.add(ci)
            if oc is not None:
                oi = w.clients.index(oc)
                model[oi]['side'] = 1
                touched.add(oi)
            labels['nested_blocks'] = True
            labels['nontrivial'] = True
            read(ci, 'get')
        elif k == 'end':
            if op['how'] == 'cdisc':
                w.send(c['t'], wire.DISCONNECT, c['ns'])
                w.mark_dead(ci)
                ended(ci)
            elif op['how'] == 'sdisc':
                w.do(sio.disconnect(c['sid'], namespace=c['ns']))
                w.mark_dead(ci)
                ended(ci)
            else:
                for i, c2 in enumerate(w.clients):
                    if c2['t'] == c['t'] and c2['alive']:
                        ended(i)
                w.lose(c['t'])
            w.recv_all()
        # every live connection still reads its own value
        vals = [repr(model[i]) for i in w.live() if model.get(i)]
        if len(set(vals)) >= 2:
            labels['nontrivial'] = True
            labels['distinct_values_coexist'] = True
        for i in w.live():
            read(i, 'get')
    return labels


def classify(case, v):
    return v.kind
