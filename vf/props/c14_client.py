"""C14, client family: the same scripted scenario against Client and
AsyncClient; returns a normalised trace."""
import asyncio

from hypothesis import strategies as st

from .. import strategies as S
from .. import wire
from ..core import as_violation
from ..eio_client import ClientHarness

RAISE = '__raise__'
NSS = ['/', '/a', '/b']
BAD = ['', '9', '2', '2[', '2{}', '3', '31', '5', '51-', '4', '2/a', 'x',
       '2/zzz,["a"]', '0/a,{', '2"a"', '2[1]', '1/zzz', '0/zzz,{"sid":"q"}',
       '4/zzz,"e"', '30[]', '2["connect"]', '2["disconnect","x"]']


def strategy(tier):
    big = tier == 'thorough'
    nsi = st.integers(0, 2)
    arg = S.tree_st(with_bytes=True, max_leaves=4)
    ret = st.one_of(st.none(), arg, st.lists(arg, max_size=2).map(tuple),
                    st.sampled_from([(), 0, '', b'', RAISE, RAISE]))
    answer = st.sampled_from(['ok', 'ok', 'ok', 'err', 'silent'])
    op = st.one_of(
        st.fixed_dictionaries({
            'op': st.just('connect'),
            'namespaces': st.one_of(st.none(), nsi, st.lists(
                nsi, min_size=1, max_size=3, unique=True)),
            'auth': st.sampled_from([None, {}, {'t': 1}, 'tok']),
            'wait': st.booleans(),
            'answers': st.lists(answer, min_size=3, max_size=3),
            'order': st.permutations([0, 1, 2])}),
        st.fixed_dictionaries({'op': st.just('sv_event'), 'ns': nsi,
                               'name': st.sampled_from(['a', 'b', 'zz']),
                               'id': st.one_of(st.none(),
                                               st.integers(0, 4)),
                               'args': st.lists(arg, max_size=2),
                               'ret': ret}),
        st.fixed_dictionaries({'op': st.just('sv_event'), 'ns': nsi,
                               'name': st.sampled_from(['a', 'b', 'zz']),
                               'id': st.one_of(st.none(),
                                               st.integers(0, 4)),
                               'args': st.lists(arg, max_size=2),
                               'ret': ret}),
        st.fixed_dictionaries({'op': st.just('sv_fault_event'), 'ns': nsi,
                               'binary': st.booleans(),
                               'id': st.one_of(st.none(), st.integers(0, 4)),
                               'id2': st.integers(0, 4)}),
        st.fixed_dictionaries({'op': st.just('sv_ack'), 'ns': nsi,
                               'id': st.integers(0, 4),
                               'args': st.lists(arg, max_size=2)}),
        st.fixed_dictionaries({'op': st.just('sv_disc'), 'ns': nsi}),
        st.fixed_dictionaries({'op': st.just('sv_err'), 'ns': nsi,
                               'data': st.sampled_from([None, 'no',
                                                        ['a', 1],
                                                        {'message': 'm'}])}),
        st.fixed_dictionaries({'op': st.just('sv_raw'),
                               'text': st.one_of(st.sampled_from(BAD),
                                                 S.text_st(max_size=6))}),
        st.fixed_dictionaries({'op': st.just('emit'), 'ns': nsi,
                               'kind': st.sampled_from(['emit', 'send']),
                               'data': S.payload_st(max_leaves=3),
                               'cb': st.booleans()}),
        st.fixed_dictionaries({'op': st.just('call'), 'ns': nsi,
                               'ack': st.one_of(st.none(), st.lists(
                                   arg, max_size=2))}),
        st.fixed_dictionaries({'op': st.just('disconnect')}),
        st.fixed_dictionaries({'op': st.just('lose'),
                               'outcomes': st.lists(st.sampled_from(
                                   ['fail', 'refuse', 'ok']), max_size=3)}),
        st.fixed_dictionaries({'op': st.just('close')}),
    )
    sc = st.fixed_dictionaries({
        'reconnection': st.booleans(), 'coro': st.booleans(),
        # life-cycle handlers of the application that fail (after they ran)
        'life_faults': st.one_of(st.just([]), st.just([]), st.lists(
            st.sampled_from(['connect_error:/', 'connect_error:/a',
                             'connect_error:/b', 'disconnect:/',
                             'disconnect:/a']),
            min_size=1, max_size=2, unique=True)),
        'ops': st.lists(op, min_size=4, max_size=40 if big else 18)})
    return st.fixed_dictionaries({'family': st.just('client'), 'sc': sc})


def run(case, aio):
    sc = case['sc']
    h = ClientHarness(aio=aio, reconnection=sc['reconnection'],
                      reconnection_attempts=2, reconnection_delay=1,
                      randomization_factor=0)
    orig_wait_for = asyncio.wait_for
    try:
        return _run(sc, aio, h)
    finally:
        asyncio.wait_for = orig_wait_for
        h.close()


def _run(sc, aio, h):
    import socketio
    sio = h.sio
    coro = sc['coro'] and aio
    trace = []
    rets = {}
    labels = {'entry_points': set(), 'faults': 0}

    def result(args):
        for a in args:
            if isinstance(a, dict) and set(a) == {'__tag'}:
                r = rets.get(a['__tag'])
                if r == RAISE:
                    raise RuntimeError('application handler fault')
                return r
        return None

    life_faults = set(sc.get('life_faults') or ())

    def mk(kind):
        if coro:
            async def f(*args):
                trace.append(('handler', kind, list(args)))
                if kind in life_faults:
                    raise RuntimeError('application handler fault')
                return result(args)
        else:
            def f(*args):
                trace.append(('handler', kind, list(args)))
                if kind in life_faults:
                    raise RuntimeError('application handler fault')
                return result(args)
        return f

    for ns in NSS:
        sio.on('connect', mk('connect:' + ns), namespace=ns)
        sio.on('disconnect', mk('disconnect:' + ns), namespace=ns)
        sio.on('connect_error', mk('connect_error:' + ns), namespace=ns)
    sio.on('a', mk('fn:/:a'), namespace='/')
    sio.on('a', mk('fn:/a:a'), namespace='/a')
    sio.on('*', mk('catchall:/a'), namespace='/a')
    base = socketio.AsyncClientNamespace if aio else socketio.ClientNamespace

    class NS(base):
        pass
    o = NS('/b')
    o.on_a = mk('class:/b:a')
    # '/b' already has function handlers for connect etc.; the class-based
    # namespace only sees what they leave over
    sio.register_namespace(o)

    reader = wire.Reader()
    sid_ctr = [0]
    backoffs = []
    state = {'answers': [], 'outcomes': []}

    def flush(step):
        try:
            for p in reader.read(h.take_msgs()):
                trace.append(('sent', p['type'], p['nsp'], p['id'],
                              p['data']))
        except Exception as e:
            trace.append(('sent-undecodable', type(e).__name__))
        while h.bg_errors:
            trace.append(('bg-error', type(h.bg_errors.pop(0)).__name__))
        while h.swallowed:
            trace.append(('contained', type(h.swallowed.pop(0)[1]).__name__))
        trace.append(('state', step, bool(sio.connected),
                      sorted(sio.namespaces), sio.get_sid('/'),
                      h.eio.state))

    def deliver(ptype, ns, pid=None, data=None):
        for f in wire.frames(ptype, ns, pid, data):
            h.deliver(f)

    def answer_connects(*_):
        """Scripted server: answer pending CONNECTs of this connection."""
        while state['answers'] and h.eio.state == 'connected':
            ns, a = state['answers'].pop(0)
            if a == 'ok':
                sid_ctr[0] += 1
                deliver(wire.CONNECT, ns, None, {'sid': 'sid%d' % sid_ctr[0]})
            elif a == 'err':
                deliver(wire.CONNECT_ERROR, ns, None, 'refused')

    def on_wait_sync(ev, timeout):
        if ev is getattr(sio, '_reconnect_abort', None):
            backoffs.append(timeout)
            out = state['outcomes'].pop(0) if state['outcomes'] else 'fail'
            h.plan[:] = ['fail' if out == 'fail' else 'ok']
            req = list(sio.connection_namespaces or [])
            state['answers'] = [(n, 'err' if out == 'refuse' and i == 0
                                 else 'ok') for i, n in enumerate(req)]
        elif ev is getattr(sio, '_connect_event', None):
            answer_connects()
        elif state.get('call_ack') is not None:
            state['call_ack']()

    if aio:
        async def rec_wait_for(fut, timeout):
            if h.eio.state != 'connected' and state.get('effort'):
                backoffs.append(timeout)
                out = state['outcomes'].pop(0) if state['outcomes'] \
                    else 'fail'
                h.plan[:] = ['fail' if out == 'fail' else 'ok']
                req = list(sio.connection_namespaces or [])
                state['answers'] = [(n, 'err' if out == 'refuse' and i == 0
                                     else 'ok') for i, n in enumerate(req)]
            return await rec_wait_for.orig(fut, timeout)
        rec_wait_for.orig = asyncio.wait_for
        asyncio.wait_for = rec_wait_for
    else:
        h.on_wait = on_wait_sync

    def settle_async(task=None, limit=60, answer=True):
        """Let the asyncio client run: answer CONNECTs, advance timers."""
        for _ in range(limit):
            h.loop.run_until_idle()
            if task is not None and task.done() and not answer:
                return
            if answer and state['answers'] and h.eio.state == 'connected':
                answer_connects()
                continue
            if state.get('call_ack') is not None:
                fn = state['call_ack']
                state['call_ack'] = None
                fn()
                continue
            live = [t for n, t in h.tasks if not t.done()]
            if task is not None and task.done():
                if not live:
                    return
            if task is None and not live:
                return
            if not h.loop.advance():
                return

    def api(step, name, fn, answer=True):
        labels['entry_points'].add(name)
        try:
            if aio:
                task = h.loop.spawn(fn())
                settle_async(task, answer=answer)
                if not task.done():
                    trace.append(('raised', step, name, 'stuck'))
                    task.cancel()
                    h.loop.run_until_idle()
                    return
                if task.exception() is not None:
                    raise task.exception()
                trace.append(('result', step, name, task.result()))
            else:
                trace.append(('result', step, name, fn()))
        except Exception as e:
            if as_violation(e) is None and not isinstance(
                    e, socketio.exceptions.SocketIOError):
                raise
            trace.append(('raised', step, name, type(e).__name__))

    tag = [0]
    cb_ctr = [0]
    for step, op in enumerate(sc['ops']):
        k = op['op']
        if k == 'connect':
            nsp = op['namespaces']
            if nsp is None:
                arg, req = None, list(NSS)
            elif isinstance(nsp, int):
                arg, req = NSS[nsp], [NSS[nsp]]
            else:
                arg = req = [NSS[i] for i in nsp]
            state['answers'] = [(NSS[i], op['answers'][i])
                                for i in op['order'] if NSS[i] in req]
            if sio.connected or h.eio.state != 'disconnected':
                state['answers'] = []     # connect() will refuse to start
            h.plan[:] = ['ok']
            api(step, 'connect', lambda: sio.connect(
                'http://h', auth=op['auth'], namespaces=arg,
                wait=op['wait'], wait_timeout=1), answer=op['wait'])
            if not aio:
                answer_connects()
            else:
                settle_async()
        elif k == 'sv_event':
            labels['entry_points'].add('EVENT')
            tag[0] += 1
            rets[tag[0]] = op['ret']
            deliver(wire.EVENT, NSS[op['ns']], op['id'],
                    [op['name'], {'__tag': tag[0]}] + list(op['args']))
        elif k == 'sv_fault_event':
            labels['entry_points'].add('EVENT')
            labels['faults'] += 1
            tag[0] += 1
            rets[tag[0]] = RAISE
            args = [{'__tag': tag[0]}] + ([b'bin', {'k': b'x'}]
                                          if op['binary'] else ['txt'])
            deliver(wire.EVENT, NSS[op['ns']], op['id'], ['a'] + args)
            tag[0] += 1
            rets[tag[0]] = 'after-fault'
            deliver(wire.EVENT, NSS[op['ns']], op['id2'],
                    ['a', {'__tag': tag[0]}])
        elif k == 'sv_ack':
            labels['entry_points'].add('ACK')
            deliver(wire.ACK, NSS[op['ns']], op['id'], list(op['args']))
        elif k == 'sv_disc':
            labels['entry_points'].add('DISCONNECT')
            deliver(wire.DISCONNECT, NSS[op['ns']])
        elif k == 'sv_err':
            labels['entry_points'].add('CONNECT_ERROR')
            deliver(wire.CONNECT_ERROR, NSS[op['ns']], None, op['data'])
        elif k == 'sv_raw':
            labels['entry_points'].add('raw')
            labels['faults'] += 1
            h.deliver(op['text'])
        elif k == 'emit':
            kw = {'namespace': NSS[op['ns']]}
            if op['cb']:
                cb_ctr[0] += 1
                kk = cb_ctr[0]
                if coro:
                    async def cb(*a, kk=kk):
                        trace.append(('callback', kk, list(a)))
                else:
                    def cb(*a, kk=kk):
                        trace.append(('callback', kk, list(a)))
                kw['callback'] = cb
            if op['kind'] == 'emit':
                api(step, 'emit', lambda: sio.emit('ev', op['data'], **kw))
            else:
                api(step, 'send', lambda: sio.send(op['data'], **kw))
        elif k == 'call':
            ns = NSS[op['ns']]

            def ack_now(*_):
                state['call_ack'] = None
                try:
                    pk = reader.read(h.take_msgs())
                except Exception:
                    return
                for p in pk:
                    trace.append(('sent', p['type'], p['nsp'], p['id'],
                                  p['data']))
                    if op['ack'] is not None and p['id'] is not None and \
                            p['type'] in (2, 5):
                        deliver(wire.ACK, ns, p['id'], list(op['ack']))
            state['call_ack'] = ack_now
            api(step, 'call', lambda: sio.call('q', 1, namespace=ns,
                                               timeout=1))
            state['call_ack'] = None
        elif k == 'disconnect':
            api(step, 'disconnect', lambda: sio.disconnect())
        elif k == 'close':
            labels['entry_points'].add('CLOSE')
            labels['faults'] += 1
            h.server_close()
        elif k == 'lose':
            labels['entry_points'].add('loss')
            labels['faults'] += 1
            state['outcomes'] = list(op['outcomes'])
            state['effort'] = True
            h.lose()
            if aio:
                settle_async()
            else:
                for b in h.reconnect_tasks():
                    b.run()
                h.bg[:] = [b for b in h.bg if not b.done]
            state['effort'] = False
            trace.append(('backoffs', step, list(backoffs)))
            del backoffs[:]
        flush(step)
    labels['entry_points'] = len(labels['entry_points'])
    return trace, labels
