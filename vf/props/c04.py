"""C04 Server connection lifecycle: accept/reject, disconnect handler exactly
once (sequential histories for both servers; asyncio schedules in c04s)."""
import inspect

from hypothesis import strategies as st

from .. import strategies as S
from .. import wire
from ..case import strict_eq
from ..core import Violation
from ..world import World

PID = 'C04'
NSS = ['/', '/a', '/b', '/zzz']
KICK = object()

HANDLED = ['/', '/a']


def decision_st():
    val = S.tree_st(with_bytes=False, max_leaves=4)
    return st.one_of(
        st.just({'d': 'accept', 'ret': None}),
        st.just({'d': 'accept', 'ret': None}),
        st.just({'d': 'accept', 'ret': True}),
        st.just({'d': 'false'}),
        # the handler disconnects the client it is asked about, and returns
        st.just({'d': 'kick'}),
        st.fixed_dictionaries({'d': st.just('raise'),
                               'args': st.lists(val, max_size=4)}),
        # a refusal whose arguments cannot be put into a packet (bytes, a
        # set): an application error, but still a refusal
        st.fixed_dictionaries({'d': st.just('raise_bad'),
                               'kind': st.sampled_from(['bytes', 'set'])}))


def ops_st(n_ops):
    ci = st.integers(0, 9)
    auth = st.one_of(st.none(), st.sampled_from([{}, '', [], False]),
                     st.dictionaries(st.sampled_from(['token', 'user', 'x']),
                                     S.leaves_st(with_bytes=False),
                                     min_size=1, max_size=2),
                     S.tree_st(with_bytes=False, max_leaves=3).filter(
                         lambda v: isinstance(v, bool) or
                         not isinstance(v, (int, float))))
    return st.lists(st.one_of(
        st.fixed_dictionaries({'op': st.just('connect'),
                               't': st.integers(0, 3),
                               'ns': st.integers(0, 3), 'auth': auth}),
        st.fixed_dictionaries({'op': st.just('connect'),
                               't': st.integers(0, 3),
                               'ns': st.integers(0, 2), 'auth': auth}),
        st.fixed_dictionaries({'op': st.just('cdisc'), 'c': ci}),
        st.fixed_dictionaries({'op': st.just('sdisc'), 'c': ci}),
        # ... while the connection is being closed: the DISCONNECT packet
        # cannot be sent any more (engine.io: SocketIsClosedError), the loss
        # of the transport follows
        st.fixed_dictionaries({'op': st.just('sdisc'), 'c': ci,
                               'fail': st.just('closed')}),
        st.fixed_dictionaries({'op': st.just('lose'), 't': st.integers(0, 3)}),
        st.fixed_dictionaries({'op': st.just('bcast'),
                               'ns': st.integers(0, 3)}),
        st.fixed_dictionaries({'op': st.just('emit_to'), 's': ci}),
    ), min_size=4, max_size=n_ops)


def config_st():
    return st.fixed_dictionaries({
        'aio': st.booleans(),
        'always_connect': st.booleans(),
        'nsconf': st.sampled_from(['default', 'list', 'star']),
        'style': st.sampled_from(['fn3', 'fn2', 'class']),
        'legacy_disc': st.booleans(),
        'coro': st.booleans(),
        # something is registered on the catch-all namespace that is
        # responsible for nothing in these histories (an ordinary event
        # handler / a class-based namespace with one event method): it must
        # not change which namespaces are served
        'star_decoy': st.sampled_from([None, None, 'fn', 'cls']),
        'decisions': st.lists(decision_st(), min_size=1, max_size=8)})


def kick_ok(case):
    """Whether the connect handler of this configuration can disconnect the
    client itself (on the asyncio server that takes a coroutine function
    handler)."""
    if not case['aio']:
        return True
    return bool(case['coro']) and case['style'] in ('fn3', 'fn2')


def build(case, w, log):
    """Registers handlers per the configuration. log gets
    ('connect', ns, sid, environ, auth|NOAUTH) / ('disconnect', ns, sid,
    reason|NOREASON) entries."""
    import socketio
    sio = w.sio
    aio = case['aio']
    coro = case['coro'] and aio
    state = {'n': 0}
    decisions = case['decisions']
    NO = '<absent>'

    def decide():
        d = decisions[state['n'] % len(decisions)]
        state['n'] += 1
        if d['d'] == 'accept':
            return d['ret']
        if d['d'] == 'false':
            return False
        if d['d'] == 'kick':
            return KICK if kick_ok(case) else None
        if d['d'] == 'raise_bad':
            raise socketio.exceptions.ConnectionRefusedError(
                'denied', b'\x01' if d['kind'] == 'bytes' else {1, 2})
        raise socketio.exceptions.ConnectionRefusedError(*d['args'])

    def on_connect(ns, sid, environ, auth=NO):
        log.append(('connect', ns, sid, environ, auth))
        r = decide()
        if r is KICK:
            # (a coroutine on the asyncio server: awaited by wrap())
            return sio.disconnect(sid, namespace=ns)
        return r

    def on_disconnect(ns, sid, reason=NO):
        log.append(('disconnect', ns, sid, reason))

    def wrap(f):
        if not coro:
            return f

        async def g(*a):
            r = f(*a)
            if inspect.isawaitable(r):
                r = await r
            return r
        return g

    style = case['style']
    legacy = case['legacy_disc']
    def mk_c3(ns):
        return lambda sid, environ, auth: on_connect(ns, sid, environ, auth)

    def mk_c2(ns):
        return lambda sid, environ: on_connect(ns, sid, environ)

    def mk_d1(ns):
        return lambda sid: on_disconnect(ns, sid)

    def mk_d2(ns):
        return lambda sid, reason: on_disconnect(ns, sid, reason)

    if style in ('fn3', 'fn2'):
        for ns in HANDLED:
            sio.on('connect', wrap((mk_c3 if style == 'fn3' else mk_c2)(ns)),
                   namespace=ns)
            sio.on('disconnect', wrap((mk_d1 if legacy else mk_d2)(ns)),
                   namespace=ns)
        if case['nsconf'] == 'star':
            sio.on('connect', wrap(lambda ns, sid, environ, auth=NO:
                                   on_connect(ns, sid, environ, auth)),
                   namespace='*')
            sio.on('disconnect', wrap(lambda ns, sid, reason=NO:
                                      on_disconnect(ns, sid, reason)),
                   namespace='*')
    else:
        base = socketio.AsyncNamespace if aio else socketio.Namespace

        class NS(base):
            pass
        if coro:
            async def oc(self, sid, environ, auth):
                return on_connect(self.namespace, sid, environ, auth)
        else:
            def oc(self, sid, environ, auth):
                return on_connect(self.namespace, sid, environ, auth)
        if legacy:
            def od(self, sid):
                on_disconnect(self.namespace, sid)
        else:
            def od(self, sid, reason):
                on_disconnect(self.namespace, sid, reason)
        NS.on_connect = oc
        NS.on_disconnect = od
        for ns in HANDLED:
            sio.register_namespace(NS(ns))
    decoy = case.get('star_decoy')
    if decoy == 'fn':
        sio.on('never sent', wrap(lambda *a: None), namespace='*')
    elif decoy == 'cls' and not (style == 'class' and
                                 case['nsconf'] == 'star'):
        base = socketio.AsyncNamespace if aio else socketio.Namespace

        class Decoy(base):
            def on_never_sent(self, *a):
                pass
        sio.register_namespace(Decoy('*'))
    return NO


def server_kwargs(case):
    kw = {'always_connect': case['always_connect']}
    if case['nsconf'] == 'list':
        kw['namespaces'] = ['/', '/a', '/b']
    elif case['nsconf'] == 'star':
        kw['namespaces'] = '*'
    return kw


def served(case, ns):
    if case['nsconf'] == 'star':
        return True
    if case['nsconf'] == 'list':
        return ns in ('/', '/a', '/b')
    return ns in HANDLED


def has_handler(case, ns):
    if ns in HANDLED:
        return True
    return case['nsconf'] == 'star' and case['style'] in ('fn3', 'fn2')


def refusal_payload(d):
    if d['d'] == 'false' or not d['args']:
        return {'message': 'Connection rejected by server'}
    a = d['args']
    out = {'message': str(a[0])}
    if len(a) == 2:
        out['data'] = a[1]
    elif len(a) > 2:
        out['data'] = list(a[1:])
    return out


RULE = ('Model-based stateful testing over configurations always_connect x '
        'namespaces {default, list, "*"} x handlers {2-arg / 3-arg functions, '
        'class-based, catch-all namespace} x decoy registrations on the '
        'catch-all namespace that are responsible for nothing x legacy '
        '1-arg disconnect handlers '
        'x both servers: generated histories of CONNECT(ns, auth) - incl. '
        'unserved and repeated namespaces -, client DISCONNECT, '
        'server.disconnect, transport loss, broadcasts and to-sid emits, with '
        'generated connect decisions (accept None/True, return False, raise '
        'ConnectionRefusedError with 0-4 JSON args or with arguments that '
        'no packet can carry, disconnect the client itself). Oracle: '
        'lifecycle model '
        '(handler once per admitted request with the auth payload, answer '
        'frames exactly as documented, fresh sids, no membership after a '
        'refusal, exactly one disconnect invocation per accepted connection '
        'with the right reason, nothing delivered afterwards, other '
        "namespaces of the transport unaffected). Non-trivial: a refusal "
        'carrying data, or >=2 namespaces on one transport with one of them '
        'ended. Also generated: server.disconnect() whose DISCONNECT cannot '
        'be sent any more (SocketIsClosedError) followed by the loss, and, '
        'in the schedule exploration, a disconnect() of the client of the '
        "transport's other namespace while the loss is being handled.")
ASSUMPTIONS = [
    'a bare top-level number is not generated as auth payload (CONNECT '
    'carries an object; a bare number is ambiguous in the v5 header, see C01)',
    'falsy auth and absent auth are the same observation',
    '2-argument connect handlers are only paired with absent/falsy auth',
    'refusal arguments are JSON values without bytes, or (judged by membership only) values that cannot be encoded',
    'threaded server: sequential executions only (thread races are C20)',
]
BUDGET = {'quick': 8000, 'thorough': 80000}
FLOOR = {'quick': 150, 'thorough': 5000}


def strategy(tier):
    n = 30 if tier == 'quick' else 80
    return st.tuples(config_st(), ops_st(n)).map(
        lambda t: dict(t[0], ops=t[1]))


def check_case(case):
    w = World(aio=case['aio'], **server_kwargs(case))
    try:
        return _run(case, w)
    finally:
        w.close()


def _run(case, w):
    sio = w.sio
    log = []
    NO = build(case, w, log)
    for _ in range(4):
        w.open()
    envs = {w.t[i]: i for i in range(4)}
    labels = {'aio': case['aio'], 'always_connect': case['always_connect'],
              'nsconf': case['nsconf'], 'style': case['style'],
              'nontrivial': False}
    decisions = case['decisions']
    nattempt = 0
    refused_sids = []       # (sid, ns, t)
    ended = []              # (sid, ns, t)
    accepted = {}           # sid -> client index
    disc_expected = {}      # sid -> reason set
    tag = 0
    R = w.h.reason

    def check_dead(sid, ns, what):
        if sio.manager.is_connected(sid, ns):
            raise Violation('still-connected', '%s sid %s' % (what, sid))
        r = sio.rooms(sid, namespace=ns)
        if r:
            raise Violation('membership-retained',
                            '%s sid %s rooms %r' % (what, sid, r))
        for room, members in sio.manager.rooms.get(ns, {}).items():
            if sid in members:
                raise Violation('membership-retained',
                                '%s sid %s in room %r' % (what, sid, room))

    class _Exp(dict):
        """disconnect expectations; connections on namespaces without
        handlers have nothing to invoke"""
        def __setitem__(self, sid, v):
            if has_handler(case, w.clients[accepted[sid]]['ns']):
                dict.__setitem__(self, sid, v)
    disc_expected = _Exp()

    def check_disconnects(step):
        got = {}
        for e in log:
            if e[0] == 'disconnect':
                got.setdefault(e[2], []).append(e)
        for sid, es in got.items():
            if sid not in disc_expected:
                raise Violation('disconnect-handler-unexpected',
                                'step %s: %r' % (step, es))
            if len(es) > 1:
                raise Violation('disconnect-handler-twice',
                                'step %s: %r' % (step, es))
            e = es[0]
            want_ns = w.clients[accepted[sid]]['ns']
            if e[1] != want_ns:
                raise Violation('disconnect-handler-namespace', repr(e))
            if e[3] != NO and e[3] not in disc_expected[sid]:
                raise Violation('disconnect-reason',
                                '%r not in %r' % (e[3], disc_expected[sid]))
        for sid in disc_expected:
            if sid not in got:
                raise Violation('disconnect-handler-missing',
                                'step %s: sid %s' % (step, sid))

    def bcast(ns, step):
        nonlocal tag
        tag += 1
        w.recv_all()
        w.do(sio.emit('bc', tag, namespace=ns))
        want = {}
        for i in w.live():
            c = w.clients[i]
            if c['ns'] == ns:
                want.setdefault(c['t'], []).append(ns)
        for t, pkts in w.recv_all().items():
            seen = [p['nsp'] for p in pkts]
            for p in pkts:
                if p['type'] != wire.EVENT or p['data'] != ['bc', tag]:
                    raise Violation('unexpected-packet', repr(p))
            if seen != want.get(t, []):
                raise Violation(
                    'delivery-after-end' if len(seen) > len(want.get(t, []))
                    else 'delivery-missing',
                    'step %d broadcast on %s: transport %d got %r expected %r'
                    % (step, ns, t, seen, want.get(t, [])))

    for step, op in enumerate(case['ops']):
        k = op['op']
        if k == 'connect':
            t = op['t']
            if not w.t_alive[t]:
                continue
            ns = NSS[op['ns']]
            auth = op['auth']
            if case['style'] == 'fn2' and auth:
                auth = None
            dup = w.client_on(t, ns) is not None
            nlog = len(log)

            def table():
                return {n_: {repr(r): sorted(map(repr, mem.items()))
                             for r, mem in rooms_.items()}
                        for n_, rooms_ in sio.manager.rooms.items()}
            before_tab = table()
            ci, pkts = w.connect(t, ns, auth)
            new = log[nlog:]
            if not served(case, ns) or dup:
                if table() != before_tab:
                    raise Violation('membership-retained',
                                    'a refused request (ns %s, duplicate=%s) '
                                    'changed the room table: %r -> %r'
                                    % (ns, dup, before_tab.get(ns),
                                       table().get(ns)))
                if new:
                    raise Violation('handler-ran-for-refused-request',
                                    repr(new))
                if ci is not None or [p['type'] for p in pkts] != \
                        [wire.CONNECT_ERROR] or pkts[0]['nsp'] != ns:
                    raise Violation('unserved-or-duplicate-not-refused',
                                    'ns %s dup %s: %r' % (ns, dup, pkts))
                labels['refused_unserved' if not dup else 'refused_dup'] = \
                    True
                continue
            hh = has_handler(case, ns)
            conn = [e for e in new if e[0] == 'connect']
            if hh:
                upcoming = decisions[nattempt % len(decisions)]
                kicked = upcoming['d'] == 'kick' and kick_ok(case)
                if len(conn) != 1 or len(new) != (2 if kicked else 1):
                    raise Violation('connect-handler-count', repr(new))
                e = conn[0]
                if e[1] != ns:
                    raise Violation('connect-handler-namespace', repr(e))
                if e[3] != {'verif.transport': t}:
                    raise Violation('connect-handler-environ', repr(e[3]))
                if auth:
                    if e[4] == NO or not strict_eq(e[4], auth):
                        raise Violation('connect-handler-auth',
                                        '%r != %r' % (e[4], auth))
                elif e[4] not in (NO, None):
                    raise Violation('connect-handler-auth',
                                    '%r for absent auth' % (e[4],))
                hsid = e[2]
                d = decisions[nattempt % len(decisions)]
                nattempt += 1
            else:
                if new:
                    raise Violation('connect-handler-count', repr(new))
                d = {'d': 'accept'}
                hsid = None
            if d['d'] == 'kick' and not kick_ok(case):
                d = {'d': 'accept'}
            if d['d'] == 'raise_bad':
                # whatever the client could be told, it was refused: no
                # membership is left
                w.h.swallowed[:] = []
                if any(p['nsp'] != ns for p in pkts) or [
                        p['type'] for p in pkts] not in (
                            [], [wire.CONNECT], [wire.CONNECT_ERROR],
                            [wire.CONNECT, wire.DISCONNECT]):
                    raise Violation('refusal-frames', repr(pkts))
                if ci is not None:
                    w.clients[ci]['alive'] = False
                    w.clients[ci]['refused'] = True
                refused_sids.append((hsid, ns, t))
                check_dead(hsid, ns, 'refused with unencodable arguments,')
                labels['refusal_that_cannot_be_encoded'] = True
                labels['nontrivial'] = True
                continue
            if d['d'] == 'kick':
                # the handler ended the connection itself: a DISCONNECT is
                # the server's last word (after the CONNECT it had already
                # sent with always_connect), the disconnect handler ran
                # once, nothing is left
                want_t = [wire.CONNECT, wire.DISCONNECT] \
                    if case['always_connect'] else [wire.DISCONNECT]
                if [p['type'] for p in pkts] != want_t or any(
                        p['nsp'] != ns for p in pkts):
                    raise Violation('kick-frames', 'the connect handler '
                                    'disconnected its client: %r' % (pkts,))
                if ci is not None:
                    w.clients[ci]['alive'] = False
                    w.clients[ci]['refused'] = True
                dl = [e for e in log if e[0] == 'disconnect' and
                      e[2] == hsid]
                if len(dl) != 1 or dl[0][3] not in (
                        NO, R.SERVER_DISCONNECT):
                    raise Violation('kick-disconnect-handler', repr(dl))
                # it was a connection (its disconnect handler ran): keep it
                # in the books of the global disconnect accounting
                if ci is None:
                    w.clients.append({'t': t, 'ns': ns, 'sid': hsid,
                                      'alive': False, 'refused': True})
                    ci = len(w.clients) - 1
                accepted[hsid] = ci
                dict.__setitem__(disc_expected, hsid, {R.SERVER_DISCONNECT})
                refused_sids.append((hsid, ns, t))
                check_dead(hsid, ns, 'kicked')
                labels['kicked_from_connect_handler'] = True
                labels['nontrivial'] = True
            elif d['d'] == 'accept':
                if ci is None or [p['type'] for p in pkts] != [wire.CONNECT]:
                    raise Violation('accept-frames', repr(pkts))
                sid = w.clients[ci]['sid']
                if hsid is not None and hsid != sid:
                    raise Violation('connect-sid-mismatch',
                                    'handler %r frame %r' % (hsid, sid))
                if w.all_sids.count(sid) > 1 or sid in w.t or \
                        sid in [r[0] for r in refused_sids]:
                    raise Violation('sid-not-fresh', sid)
                accepted[sid] = ci
                if not sio.manager.is_connected(sid, ns):
                    raise Violation('accepted-not-connected', sid)
            else:
                want = refusal_payload(d)
                if case['always_connect']:
                    ok = [p['type'] for p in pkts] == [wire.CONNECT,
                                                      wire.DISCONNECT]
                    body = pkts[-1]['data'] if ok else None
                    if ok and pkts[0]['data'].get('sid') != hsid:
                        raise Violation('connect-sid-mismatch', repr(pkts))
                    if ci is not None:
                        w.clients[ci]['alive'] = False
                        w.clients[ci]['refused'] = True
                else:
                    ok = [p['type'] for p in pkts] == [wire.CONNECT_ERROR]
                    body = pkts[-1]['data'] if ok else None
                if not ok or any(p['nsp'] != ns for p in pkts):
                    raise Violation('refusal-frames', repr(pkts))
                if not strict_eq(body, want):
                    raise Violation('refusal-payload', '%r != %r'
                                    % (body, want))
                if hsid in w.t or [r[0] for r in refused_sids].count(hsid) \
                        or (w.all_sids.count(hsid) > (
                            1 if case['always_connect'] else 0)):
                    raise Violation('sid-not-fresh', repr(hsid))
                refused_sids.append((hsid, ns, t))
                check_dead(hsid, ns, 'refused')
                labels['refusal'] = True
                if 'data' in want:
                    labels['nontrivial'] = True
                    labels['refusal_with_data'] = True
        elif k in ('cdisc', 'sdisc'):
            lv = w.live()
            if not lv:
                continue
            ci = lv[op['c'] % len(lv)]
            c = w.clients[ci]
            if k == 'cdisc':
                disc_expected[c['sid']] = {R.CLIENT_DISCONNECT}
                w.send(c['t'], wire.DISCONNECT, c['ns'])
                if w.recv(c['t']):
                    raise Violation('unexpected-packet', 'after DISCONNECT')
            elif op.get('fail'):
                import engineio
                disc_expected[c['sid']] = {R.SERVER_DISCONNECT}
                real = (sio.eio.send, sio.eio.send_packet)
                dying = w.t[c['t']]

                def mk_bad(orig):
                    if case['aio']:
                        async def bad(eio_sid, *a, **kw):
                            if eio_sid == dying:
                                raise engineio.exceptions.SocketIsClosedError()
                            return await orig(eio_sid, *a, **kw)
                    else:
                        def bad(eio_sid, *a, **kw):
                            if eio_sid == dying:
                                raise engineio.exceptions.SocketIsClosedError()
                            return orig(eio_sid, *a, **kw)
                    return bad
                sio.eio.send, sio.eio.send_packet = map(mk_bad, real)
                try:
                    w.do(sio.disconnect(c['sid'], namespace=c['ns']))
                finally:
                    sio.eio.send, sio.eio.send_packet = real
                w.mark_dead(ci)
                ended.append((c['sid'], c['ns'], c['t']))
                check_disconnects(step)
                for i, c2 in enumerate(w.clients):
                    if c2['t'] == c['t'] and c2['alive']:
                        disc_expected[c2['sid']] = {R.TRANSPORT_ERROR}
                        ended.append((c2['sid'], c2['ns'], c['t']))
                w.lose(c['t'])
                labels['nontrivial'] = True
                labels['server_disconnect_on_closed_socket'] = True
                check_disconnects(step)
                continue
            else:
                disc_expected[c['sid']] = {R.SERVER_DISCONNECT}
                w.do(sio.disconnect(c['sid'], namespace=c['ns']))
                got = w.recv(c['t'])
                if [(p['type'], p['nsp']) for p in got] != \
                        [(wire.DISCONNECT, c['ns'])]:
                    raise Violation('server-disconnect-frames', repr(got))
            w.mark_dead(ci)
            ended.append((c['sid'], c['ns'], c['t']))
            if any(c2['alive'] and c2['t'] == c['t'] for c2 in w.clients):
                labels['nontrivial'] = True
                labels['sibling_namespace_survives'] = True
        elif k == 'lose':
            t = op['t']
            if not w.t_alive[t]:
                continue
            for i, c in enumerate(w.clients):
                if c['t'] == t and c['alive']:
                    disc_expected[c['sid']] = {R.TRANSPORT_ERROR}
                    ended.append((c['sid'], c['ns'], t))
            w.lose(t)
        elif k == 'bcast':
            bcast(NSS[op['ns']], step)
        elif k == 'emit_to':
            pool = [(s, n, t) for s, n, t in refused_sids + ended
                    if s is not None]
            if not pool:
                continue
            sid, ns, t = pool[op['s'] % len(pool)]
            w.recv_all()
            w.do(sio.emit('x', 1, to=sid, namespace=ns))
            for t2, pkts in w.recv_all().items():
                if pkts:
                    raise Violation('delivery-after-end',
                                    'emit to gone sid %s reached transport '
                                    '%d: %r' % (sid, t2, pkts))
        check_disconnects(step)
        for sid, ns, t in ended[-3:] + refused_sids[-3:]:
            if sid is not None:
                check_dead(sid, ns, 'gone')
    # teardown: every transport is lost; every accepted connection must have
    # had exactly one disconnect invocation by now
    for t in range(len(w.t)):
        if w.t_alive[t]:
            for c in w.clients:
                if c['t'] == t and c['alive']:
                    disc_expected[c['sid']] = {R.TRANSPORT_ERROR}
            w.lose(t)
    check_disconnects('teardown')
    for sid, ci in accepted.items():
        if sid not in disc_expected and has_handler(
                case, w.clients[ci]['ns']):
            raise Violation('disconnect-handler-missing', sid)
    extra = [e for e in log if e[0] == 'disconnect' and e[2] not in accepted]
    if extra:
        raise Violation('disconnect-handler-unexpected', repr(extra))
    if w.h.swallowed:
        raise Violation('engineio-contained-exception',
                        repr(w.h.swallowed[0]))
    return labels


def classify(case, v):
    return v.kind


# ==========================================================================
# asyncio server: interleavings of concurrent terminating causes

from .. import coop as _coop            # noqa: E402  (explore only)

CAUSES = ['sdisc', 'cdisc', 'lose', 'odisc']
EXHAUSTIVE = True
EXHAUSTIVE_SCOPE = ('asyncio server: every release order of the gates (one '
                    'at the disconnect handler, one at every transport send) '
                    'for every ordered pair of terminating causes '
                    '{server.disconnect, client DISCONNECT, transport loss, '
                    'DISCONNECT of the other namespace}; triples are '
                    'Hypothesis-sampled')
_SCACHE = {}


class _Sched:
    """taken / branching record so that coop.explore can drive it."""

    def __init__(self, choices):
        self.choices = list(choices)
        self.taken = []
        self.branching = []
        self.trace = []

    def pick(self, n):
        i = len(self.taken)
        k = self.choices[i] % n if i < len(self.choices) else 0
        self.taken.append(k)
        self.branching.append(n)
        return k


def enumerate_sharded(tier, shard, nshards):
    import itertools
    cfgs = []
    for pair in itertools.permutations(CAUSES, 2):
        cfgs.append({'sched': True, 'causes': list(pair)})
    cfgs.append({'sched': True, 'causes': ['sdisc', 'sdisc']})
    cfgs.append({'sched': True, 'causes': ['cdisc', 'cdisc']})
    # another transport is refused on the victim's namespace while the
    # victim's termination is in progress, then a second cause arrives
    for a, b in (('cdisc', 'lose'), ('sdisc', 'cdisc'), ('sdisc', 'lose'),
                 ('lose', 'sdisc')):
        cfgs.append({'sched': True, 'causes': [a, 'refuse', b]})
    # the dying transport asks for one more namespace while the disconnect
    # handlers of its loss are running
    cfgs.append({'sched': True, 'causes': ['lose', 'yconnect']})
    cfgs.append({'sched': True, 'causes': ['lose', 'yconnect', 'sdisc']})
    # ... and another transport asks for a namespace meanwhile: it is served
    cfgs.append({'sched': True, 'causes': ['lose', 'oconnect']})
    cfgs.append({'sched': True, 'causes': ['sdisc', 'oconnect', 'lose']})
    # the application disconnects the client of the transport's *other*
    # namespace (the one the loss gets to last) while the loss is being
    # handled: the socket is already closed, the send fails, and that call is
    # the only one that can still run the client's disconnect handler
    cfgs.append({'sched': True, 'causes': ['lose', 'xsdisc']})
    cfgs.append({'sched': True, 'causes': ['xsdisc', 'lose']})
    cfgs.append({'sched': True, 'causes': ['sdisc', 'xsdisc']})
    cfgs.append({'sched': True, 'causes': ['lose', 'xsdisc', 'sdisc']})
    for i, cfg in enumerate(cfgs):
        if i % nshards != shard:
            continue

        def run_one(choices, cfg=cfg):
            case = dict(cfg, choices=choices)
            s, o = _sched_execute(case)
            case['choices'] = list(s.taken)
            try:
                r = _sched_judge(case, s, o)
            except Violation as v:
                r = v
            _SCACHE.clear()
            _SCACHE[repr(case)] = r
            run_one.case = case
            return s
        for s in _coop.explore(run_one, max_schedules=20000):
            yield run_one.case


def _sched_execute(case):
    import asyncio
    w = World(aio=True, namespaces=['/', '/x', '/y'])
    sio = w.sio
    loop = w.h.loop
    s = _Sched(case['choices'])
    gates = []
    log = []

    async def gate(label):
        fut = loop.create_future()
        gates.append((label, fut))
        await fut

    def mk_disc(ns):
        async def h(sid, reason):
            log.append((ns, sid, reason))
            await gate('handler:' + ns)
        return h
    for ns in ('/', '/x', '/y'):
        sio.on('connect', lambda sid, environ, auth=None:
               False if auth == {'refuse': 1} else None, namespace=ns)
        sio.on('disconnect', mk_disc(ns), namespace=ns)
    tr = w.open()
    sock_r = w.h.eio.sockets[w.t[tr]]
    t = w.open()
    ci, _ = w.connect(t, '/')
    co, _ = w.connect(t, '/x')
    tb = w.open()
    cb, _ = w.connect(tb, '/')
    victim, other, by = w.clients[ci], w.clients[co], w.clients[cb]
    w.recv_all()
    real_send = sio.eio.send_packet

    async def send_packet(sid, pkt):
        await gate('send')
        return await real_send(sid, pkt)
    sio.eio.send_packet = send_packet
    sock = w.h.eio.sockets[w.t[t]]
    from engineio import packet as ep

    def cause(name):
        if name == 'sdisc':
            return sio.disconnect(victim['sid'], namespace='/')
        if name == 'cdisc':
            return sock.receive(ep.Packet(ep.MESSAGE, '1'))
        if name == 'odisc':
            return sock.receive(ep.Packet(ep.MESSAGE, '1/x,'))
        if name == 'xsdisc':
            return sio.disconnect(other['sid'], namespace='/x')
        if name == 'refuse':
            return sock_r.receive(ep.Packet(ep.MESSAGE, '0{"refuse":1}'))
        if name == 'yconnect':
            return sock.receive(ep.Packet(ep.MESSAGE, '0/y,'))
        if name == 'oconnect':
            return sock_r.receive(ep.Packet(ep.MESSAGE, '0/y,'))
        return sock.close(wait=False, abort=True,
                          reason=w.h.reason.TRANSPORT_ERROR)
    tasks = []
    pending = list(case['causes'])
    # the harness decides, at every idle point, between starting the next
    # cause and releasing one of the parked gates
    for _ in range(200):
        loop.run_until_idle()
        live = [(l, f) for l, f in gates if not f.done()]
        opts = [('start', None)] if pending else []
        opts += [('release', g) for g in live]
        if not opts:
            break
        k = s.pick(len(opts))
        what, g = opts[k]
        if what == 'start':
            name = pending.pop(0)
            tasks.append((name, loop.spawn(cause(name))))
            s.trace.append(('start', name))
        else:
            g[1].set_result(None)
            s.trace.append(('release', g[0]))
    loop.run_until_idle()
    return s, {'w': w, 'log': log, 'tasks': tasks, 'victim': victim,
               'other': other, 'by': by, 'gates': gates, 'tr': tr}


def _sched_judge(case, s, o):
    w, sio = o['w'], o['w'].sio
    try:
        victim, other, by = o['victim'], o['other'], o['by']
        names = case['causes']
        what = 'causes %r schedule %r' % (names, s.trace)
        for name, t in o['tasks']:
            if not t.done():
                raise Violation('cause-never-finishes', '%s [%s]'
                                % (name, what))
            if t.exception() is not None:
                raise Violation('cause-raised', '%s: %r [%s]'
                                % (name, t.exception(), what))
        if w.h.swallowed:
            raise Violation('cause-raised', 'engine.io contained %r [%s]'
                            % (w.h.swallowed[0], what))
        kills = [n for n in names if n in ('sdisc', 'cdisc', 'lose')]
        v_inv = [e for e in o['log'] if e[1] == victim['sid']]
        if len(v_inv) != (1 if kills else 0):
            raise Violation('disconnect-handler-%s' % (
                'twice' if len(v_inv) > 1 else 'missing'), what)
        R = w.h.reason
        allowed = {'sdisc': R.SERVER_DISCONNECT, 'cdisc': R.CLIENT_DISCONNECT,
                   'lose': R.TRANSPORT_ERROR}
        if v_inv and v_inv[0][2] not in {allowed[n] for n in kills}:
            raise Violation('disconnect-reason', '%r [%s]' % (v_inv, what))
        m = sio.manager
        if kills and (m.is_connected(victim['sid'], '/') or sio.rooms(
                victim['sid']) or m.pending_disconnect):
            raise Violation('victim-not-removed', what)
        o_killed = 'lose' in names or 'odisc' in names or \
            'xsdisc' in names
        o_inv = [e for e in o['log'] if e[1] == other['sid']]
        if len(o_inv) != (1 if o_killed else 0):
            raise Violation('other-namespace-handler-count',
                            '%d [%s]' % (len(o_inv), what))
        if not o_killed and not m.is_connected(other['sid'], '/x'):
            raise Violation('other-namespace-affected', what)
        if not m.is_connected(by['sid'], '/'):
            raise Violation('bystander-affected', what)
        if 'yconnect' in names:
            ysid = m.sid_from_eio_sid(w.t[victim['t']], '/y')
            y_inv = [e for e in o['log'] if e[0] == '/y']
            if ysid is not None or any(
                    v for v in m.rooms.get('/y', {}).values()):
                raise Violation('membership-retained',
                                'the lost transport stays connected to /y '
                                'as %r; /y disconnect handler ran %d times '
                                '[%s]' % (ysid, len(y_inv), what))
            if len(y_inv) > 1:
                raise Violation('disconnect-handler-twice', '/y [%s]' % what)
        if 'oconnect' in names:
            got_r = w.recv(o['tr'])
            if [(p['type'], p['nsp']) for p in got_r] != [
                    (wire.CONNECT, '/y')] or m.sid_from_eio_sid(
                        w.t[o['tr']], '/y') is None:
                raise Violation('bystander-connect-not-served',
                                'another transport asked for /y while the '
                                'victim was being disconnected: answered %r '
                                '[%s]' % (got_r, what))
        if 'refuse' in names:
            got_r = w.recv(o['tr'])
            if [(p['type'], p['nsp']) for p in got_r] != [
                    (wire.CONNECT_ERROR, '/')]:
                raise Violation('refusal-frames', '%r [%s]' % (got_r, what))
        if m.sid_from_eio_sid(w.t[o['tr']], '/') is not None:
            raise Violation('membership-retained', 'refused transport '
                            '[%s]' % what)
        # nothing is delivered to the victim any more; the bystander and
        # the surviving namespace still get their traffic
        w.recv_all()
        sio.eio.send_packet = sio.eio.__class__.send_packet.__get__(sio.eio)
        w.do(sio.emit('after', 1, namespace='/'))
        w.do(sio.emit('after', 1, namespace='/x'))
        got = w.recv_all()
        tv = victim['t']
        on_v = [(p['nsp']) for p in got.get(tv, [])] if w.h.eio.sockets.get(
            w.t[tv]) else []
        want_v = [] if (kills and o_killed) else (
            ['/x'] if kills else (['/'] if o_killed else ['/', '/x']))
        if 'lose' in names:
            want_v = []
        if sorted(on_v) != sorted(want_v):
            raise Violation('delivery-after-end', 'victim transport got %r, '
                            'expected %r [%s]' % (on_v, want_v, what))
        if [p['nsp'] for p in got.get(by['t'], [])] != ['/']:
            raise Violation('bystander-delivery', what)
        second_while_parked = False
        started = 0
        parked = 0
        for ev in s.trace:
            if ev[0] == 'start':
                started += 1
                if started >= 2 and parked > 0:
                    second_while_parked = True
            # a cause parks as soon as it has started and hit a gate
            parked = max(parked, started - 0) if ev[0] == 'start' else parked
        return {'sched': True, 'causes': '+'.join(names),
                'nontrivial': len(s.trace) > len(names)}
    finally:
        w.close()


_seq_strategy = strategy
_seq_check = check_case


def strategy(tier):         # noqa: F811
    triple = st.fixed_dictionaries({
        'sched': st.just(True),
        'causes': st.lists(st.sampled_from(CAUSES), min_size=3, max_size=3),
        'choices': st.lists(st.integers(0, 4), min_size=12, max_size=30)})
    return st.one_of(_seq_strategy(tier), _seq_strategy(tier), triple)


def check_case(case):       # noqa: F811
    if not case.get('sched'):
        return _seq_check(case)
    r = _SCACHE.pop(repr(case), None)
    if r is not None:
        if isinstance(r, Violation):
            raise r
        return r
    s, o = _sched_execute(case)
    return _sched_judge(case, s, o)
