"""C15 The pub/sub listener survives anything that arrives on the channel."""
import json
import pickle

from hypothesis import strategies as st

from .. import wire
from ..case import strict_eq
from ..cluster import Cluster
from ..core import Violation

PID = 'C15'
RULE = ('One host (PubSubManager / AsyncPubSubManager subclass, real '
        'listener loop) with two local clients and outstanding local '
        'callbacks consumes a generated channel sequence mixing valid '
        'messages from other hosts with: random bytes, pickles and JSON texts '
        'of non-dicts, dicts lacking each required key, wrong-typed fields, '
        'unknown methods, own-host echoes of every method, callback messages '
        'for other hosts / unknown ids / repeated; fault plan: the transport '
        'send, the disconnect handler or the application callback raises at '
        "designated messages, and the backend's listen iterator raises at "
        'chosen positions - also before the listener has seen any message - '
        'and is re-entered. After every message a valid '
        'sentinel emit from another host with a unique payload is inserted. '
        'Oracle: every sentinel is delivered exactly once, in order; the '
        'listener only ends at end-of-stream; own-host echoes have no effect; '
        "a callback message for another host never completes a local "
        'callback, one for this host completes it exactly once. Secondary '
        'parts: (redis) RedisManager / AsyncRedisManager._listen over a fake '
        'redis module with scripted listen() failures and subscribe failures '
        '(ordering, back-off 1,2,4..60 with reset, one publish retry); '
        '(redisbus) the real listener thread of both Redis managers attached '
        'to a real server reads a scripted channel (emits of another host, '
        'own echoes, hostile values in pickle / JSON / raw, connection '
        'errors, non-message items) through a fake client that tracks '
        'subscriptions and drops what arrives while the connection is not '
        'subscribed; abandoned async generators are finalised by loop tasks '
        'as in asyncio. Non-trivial: >=3 different kinds of bad message and '
        'one fault in one sequence, or a listener restart followed by a '
        'valid message. The harness backend counts its _listen() iterators: '
        'a subscription may be given up only when the backend failed '
        '(injected), never because of a message.'
        ' An acknowledgement addressed to this host can name a third local client without outstanding callbacks, to which another host emits with a callback at the end.')
ASSUMPTIONS = [
    'pickles are only built from generated data (no hostile opcodes)',
    'in-memory channel; the Redis managers are driven separately against a '
    'fake redis module in the secondary part of this check',
]
BUDGET = {'quick': 8000, 'thorough': 64000}
FLOOR = {'quick': 100, 'thorough': 4000}

REQUIRED = {
    'emit': ['event', 'data', 'namespace', 'room', 'skip_sid', 'callback'],
    'disconnect': ['sid', 'namespace'],
    'enter_room': ['sid', 'room', 'namespace'],
    'leave_room': ['sid', 'room', 'namespace'],
    'close_room': ['room', 'namespace'],
    'callback': ['sid', 'namespace', 'id', 'args'],
}


def strategy(tier):
    junk = st.one_of(
        st.none(), st.booleans(), st.integers(-3, 10**9), st.text(max_size=6),
        st.binary(max_size=6), st.lists(st.integers(0, 3), max_size=3),
        st.dictionaries(st.text(max_size=3), st.integers(), max_size=2),
        st.sampled_from(['§A§', '§B§', '/', 'method', ['method'], 0, 1, 2]))
    method = st.sampled_from(list(REQUIRED))
    msg = st.one_of(
        st.fixed_dictionaries({'k': st.just('valid'), 'method': method,
                               'target': st.sampled_from(['A', 'B']),
                               'room': st.sampled_from(['r1', 'r2'])}),
        st.fixed_dictionaries({'k': st.just('valid'), 'method': method,
                               'target': st.sampled_from(['A', 'B']),
                               'room': st.sampled_from(['r1', 'r2'])}),
        st.fixed_dictionaries({'k': st.just('bytes'),
                               'v': st.binary(max_size=20)}),
        st.fixed_dictionaries({'k': st.just('nondict'), 'v': junk,
                               'enc': st.sampled_from(['pickle', 'json',
                                                       'jsonb'])}),
        st.fixed_dictionaries({'k': st.just('missing'), 'method': method,
                               'drop': st.integers(0, 6),
                               'enc': st.sampled_from(['pickle', 'json',
                                                       'obj'])}),
        st.fixed_dictionaries({'k': st.just('wrongtype'), 'method': method,
                               'field': st.integers(0, 6), 'v': junk,
                               'enc': st.sampled_from(['pickle', 'obj'])}),
        st.fixed_dictionaries({'k': st.just('unknown'),
                               'method': st.one_of(st.text(max_size=5), junk),
                               'enc': st.sampled_from(['pickle', 'json'])}),
        st.fixed_dictionaries({'k': st.just('echo'), 'method': method,
                               'target': st.sampled_from(['A', 'B'])}),
        st.fixed_dictionaries({'k': st.just('cb'),
                               'host': st.sampled_from(['own', 'other',
                                                        'other']),
                               'id': st.sampled_from(['right', 'right',
                                                      'unknown']),
                               'args': st.lists(st.integers(0, 5),
                                                max_size=2)}),
        st.fixed_dictionaries({'k': st.just('extra'), 'method': method,
                               'target': st.sampled_from(['A', 'B'])}),
    )
    fault = st.one_of(
        st.none(),
        st.fixed_dictionaries({'kind': st.sampled_from(
            ['send', 'disconnect_handler', 'callback', 'listen',
             'callback_cancelled', 'send_cancelled']),
            'at': st.integers(0, 12)}))
    return st.fixed_dictionaries({
        'aio': st.booleans(),
        'msgs': st.lists(msg, min_size=2, max_size=30 if tier == 'thorough'
                         else 14),
        'faults': st.lists(fault, max_size=3),
        # a third local client, to which this host has never emitted with a
        # callback: an acknowledgement addressed to this host names it
        # (a late or duplicated one), and at the end another host emits to
        # it with a callback of its own
        'stray_first': st.booleans()})


def check_case(case):
    cl = Cluster(aio=case['aio'], nhosts=1, namespaces=['/'])
    try:
        return _run(case, cl)
    finally:
        cl.close()


def _run(case, cl):
    aio = case['aio']
    host = cl.hosts[0]
    sio, mgr = host.sio, host.mgr
    own = mgr.host_id
    flags = {'send': False, 'disconnect_handler': False, 'callback': False,
             'callback_cancelled': False, 'send_cancelled': False}
    disc_log = []
    cb_log = []

    def on_disconnect(sid, reason=None):
        disc_log.append(sid)
        if flags['disconnect_handler']:
            raise RuntimeError('injected disconnect handler fault')
    sio.on('connect', lambda sid, environ, auth=None: None)
    sio.on('disconnect', on_disconnect)
    a = cl.connect(0, '/')
    b = cl.connect(0, '/')
    A, B = cl.clients[a], cl.clients[b]
    table = {'§A§': A['sid'], '§B§': B['sid']}
    C = None
    if case.get('stray_first'):
        c3 = cl.connect(0, '/')
        C = cl.clients[c3]

    def mk_cb(name):
        if aio:
            async def cb(*args):
                cb_log.append((name, list(args)))
                if flags['callback']:
                    raise RuntimeError('injected callback fault')
                if flags['callback_cancelled']:
                    # the coroutine callback awaited something that was
                    # cancelled
                    import asyncio
                    raise asyncio.CancelledError()
        else:
            def cb(*args):
                cb_log.append((name, list(args)))
                if flags['callback']:
                    raise RuntimeError('injected callback fault')
        return cb
    host.h.do(sio.emit('q', 1, to=A['sid'], callback=mk_cb('A')))
    host.h.do(sio.emit('q', 1, to=B['sid'], callback=mk_cb('B')))
    cl.recv(a)
    cl.recv(b)
    # the ids the *application* callbacks are stored under
    cb_id = {}
    for name, c in (('A', A), ('B', B)):
        ids = sorted(k for k, v in mgr.callbacks.get(c['sid'], {}).items()
                     if isinstance(k, int) and getattr(
                         v, '__name__', '') == 'cb')
        cb_id[name] = ids[0]
    # transport fault: send raises while the flag is up
    real_send = sio.eio.send_packet
    if aio:
        async def send_packet(sid, pkt):
            if flags['send_cancelled'] and sid == B['t']:
                # the send *task* of this recipient ends cancelled (its
                # transport is being torn down); a send awaited inline by
                # the listener is left alone - cancelling that would be
                # cancelling the listener itself
                import asyncio
                cur = asyncio.current_task()
                name = getattr(cur.get_coro(), '__name__', '') if cur \
                    else ''
                if name in ('_send_eio_packet', '_send_packet'):
                    raise asyncio.CancelledError()
            if flags['send'] and sid == B['t']:
                raise RuntimeError('injected transport fault')
            return await real_send(sid, pkt)
    else:
        def send_packet(sid, pkt):
            if flags['send'] and sid == B['t']:
                raise RuntimeError('injected transport fault')
            return real_send(sid, pkt)
    sio.eio.send_packet = send_packet

    def subst(v):
        if isinstance(v, str):
            return table.get(v, v)
        if isinstance(v, list):
            return [subst(x) for x in v]
        return v

    def full(method, target, host_id, room='r1'):
        sid = (A if target == 'A' else B)['sid']
        m = {'method': method, 'host_id': host_id, 'namespace': '/'}
        if method == 'emit':
            m.update(event='e', data=[target], room=sid, skip_sid=None,
                     callback=None)
        elif method in ('enter_room', 'leave_room'):
            m.update(sid=sid, room=room)
        elif method == 'close_room':
            m.update(room=room)
        elif method == 'disconnect':
            m.update(sid=sid)
        else:
            m.update(sid=sid, id=10**6, args=[1])
        return m

    def enc(obj, how):
        if how == 'pickle':
            return pickle.dumps(obj)
        if how == 'obj':
            return obj
        try:
            t = json.dumps(obj)
        except (TypeError, ValueError):
            return pickle.dumps(obj)
        return t.encode() if how == 'jsonb' else t

    # whatever the set-up published is consumed first, so that the generated
    # channel is read by a listener that has not yet seen any message
    if host.unread():
        host.consume(host.unread())
        host.logged[:] = []
    # ---- build the channel
    labels = {'aio': aio, 'nontrivial': False}
    kinds = set()
    expect_rooms_B = set()
    b_alive = True
    a_events = []        # expected non-sentinel events at A ('e' from valid)
    expect_cb = []
    cb_done = {'A': False, 'B': False}
    fault_at = {}        # bus index -> fault kind
    listen_faults = []
    plan = []            # (bus index, msg) for bookkeeping
    faults = [dict(f) for f in case['faults'] if f]
    if C is not None:
        cl.bus.append((0, pickle.dumps({
            'method': 'callback', 'host_id': own, 'sid': C['sid'],
            'namespace': '/', 'id': 7, 'args': ['late']})))
    # a fault of an application callback / disconnect handler is aimed at
    # the first message that makes the listener invoke it (a random position
    # almost never is one)
    for f in faults:
        if f['kind'] in ('callback', 'callback_cancelled'):
            hits = [i for i, m in enumerate(case['msgs'])
                    if m['k'] == 'cb' and m.get('host') == 'own' and
                    m.get('id') == 'right']
        elif f['kind'] == 'disconnect_handler':
            hits = [i for i, m in enumerate(case['msgs'])
                    if m['k'] == 'valid' and m.get('method') == 'disconnect']
        else:
            hits = []
        if hits:
            f['at'] = hits[0]
    n = 0
    for i, m in enumerate(case['msgs']):
        k = m['k']
        kinds.add(k)
        raw = None
        effect = None
        if k == 'valid':
            method, tgt = m['method'], m['target']
            if method == 'disconnect' and tgt == 'A':
                tgt = 'B'
            if method == 'callback':
                obj = full('callback', tgt, 'other-host')
            else:
                obj = full(method, tgt, 'other-host', m['room'])
                effect = (method, tgt, m['room'])
            raw = pickle.dumps(obj)
        elif k == 'bytes':
            raw = m['v']
        elif k == 'nondict':
            raw = enc(subst(m['v']), m['enc'])
        elif k == 'missing':
            obj = full(m['method'], 'B', 'other-host')
            keys = REQUIRED[m['method']] + ['method']
            drop = keys[m['drop'] % len(keys)]
            obj.pop(drop, None)
            if m['method'] == 'emit' and drop in ('skip_sid', 'callback',
                                                  'namespace', 'room'):
                # still a broadcast-capable emit: keep it harmless
                obj['event'] = 'harmless'
                obj['room'] = 'nobody'
            if m['method'] in ('close_room',) and drop == 'room':
                obj['room'] = 'nobody'
                obj.pop('room')
            raw = enc(obj, m['enc'])
            effect = ('maybe', m['method'], drop)
        elif k == 'wrongtype':
            obj = full(m['method'], 'B', 'other-host')
            keys = REQUIRED[m['method']]
            f = keys[m['field'] % len(keys)]
            obj[f] = subst(m['v'])
            if obj[f] == A['sid']:
                obj[f] = B['sid']     # must not become a valid op on A
            if m['method'] == 'emit':
                obj['event'] = 'harmless'
                if f != 'room':
                    obj['room'] = 'nobody'
            raw = enc(obj, m['enc'])
            effect = ('maybe', m['method'], f)
        elif k == 'unknown':
            raw = enc({'method': subst(m['method']), 'host_id': 'other-host',
                       'sid': B['sid'], 'namespace': '/'}, m['enc'])
        elif k == 'echo':
            tgt = m['target']
            obj = full(m['method'], tgt, own)
            if m['method'] == 'callback':
                obj['id'] = 10**6
            raw = pickle.dumps(obj)
        elif k == 'cb':
            name = 'B'
            hid = own if m['host'] == 'own' else 'other-host'
            cid = cb_id[name] if m['id'] == 'right' else 777
            raw = pickle.dumps({'method': 'callback', 'host_id': hid,
                                'sid': B['sid'], 'namespace': '/',
                                'id': cid, 'args': list(m['args'])})
            effect = ('cb', hid == own and m['id'] == 'right',
                      list(m['args']))
        else:
            obj = full(m['method'], m['target'], 'other-host')
            if m['method'] == 'disconnect':
                obj['sid'] = 'nobody'
            if m['method'] == 'emit':
                obj['room'] = 'nobody'
            if m['method'] in ('enter_room', 'leave_room', 'close_room'):
                obj['room'] = 'extra-room'
            obj['surplus'] = {'x': [1, 2]}
            obj['another'] = None
            raw = pickle.dumps(obj)
        idx = len(cl.bus)
        cl.bus.append((0, raw))
        plan.append((idx, m, effect))
        for f in faults:
            # transport faults last for a few messages, the others hit one
            span = 4 if f['kind'].startswith('send') else 1
            if f['at'] <= i < f['at'] + span:
                if f['kind'] == 'listen':
                    listen_faults.append(idx)
                else:
                    fault_at.setdefault(idx, f['kind'])
        # sentinel
        n += 1
        # (every other sentinel is a broadcast: the table of connected
        # clients is still what it was)
        cl.bus.append((0, pickle.dumps({
            'method': 'emit', 'event': 's', 'data': n, 'namespace': '/',
            'room': A['sid'] if n % 2 else None, 'skip_sid': None,
            'callback': None, 'host_id': 'other-host'})))
    if C is not None:
        cl.bus.append((0, pickle.dumps({
            'method': 'emit', 'event': 'q2', 'data': ['x'],
            'namespace': '/', 'room': C['sid'], 'skip_sid': None,
            'callback': (C['sid'], '/', 5), 'host_id': 'other-host'})))
    mgr.listen_faults = list(listen_faults)

    def on_yield(i):
        for kf in flags:
            flags[kf] = fault_at.get(i) == kf
    mgr.on_yield = on_yield

    total = len(cl.bus)
    host.consume(total + 5)
    for kf in flags:
        flags[kf] = False
    if host.died:
        raise Violation('listener-stopped', 'the listener left its loop '
                        'before the channel ended; log %r' % host.logged[-2:])
    if mgr.cursor != total:
        raise Violation('listener-stopped',
                        'consumed %d of %d messages; log %r'
                        % (mgr.cursor, total, host.logged[-2:]))
    if host.resubscribed:
        raise Violation('listener-gave-up-its-subscription',
                        'the listener abandoned its backend iterator and '
                        'asked for a new one %d time(s) although the '
                        'backend had not failed (a message on the channel '
                        'was taken for a backend failure); log %r'
                        % (host.resubscribed, host.logged[-2:]))
    # ---- sentinels
    got = cl.recv(a)
    sent = [p['data'][1] for p in got if p['type'] == wire.EVENT and
            p['data'][0] == 's']
    if sent != list(range(1, n + 1)):
        kind = 'sentinel-duplicated' if len(sent) != len(set(sent)) else (
            'sentinel-lost' if len(sent) < n else 'sentinel-reordered')
        raise Violation(kind, 'sentinels %r of 1..%d; listener log %r'
                        % (sent, n, host.logged[-2:]))
    if C is not None:
        got_c = [p for p in cl.recv(c3) if p['type'] == wire.EVENT and
                 p['data'][:1] == ['q2']]
        if len(got_c) != 1 or got_c[0]['id'] is None:
            raise Violation('remote-emit-with-callback-lost',
                            'after an acknowledgement that named a client '
                            'without outstanding callbacks, the emit with a '
                            'callback that another host addressed to that '
                            'client arrived as %r; listener log %r'
                            % (got_c, host.logged[-2:]))
        labels['stray_ack_then_remote_callback'] = True
    # ---- echoes / foreign callbacks / callbacks
    own_right = [e[2] for _, _, e in plan if e and e[0] == 'cb' and e[1]]
    b_touched = any(e and (e[0] == 'maybe' or (
        e[0] == 'disconnect' and e[1] == 'B')) for _, _, e in plan)
    if len(cb_log) > 1:
        raise Violation('callback-twice', repr(cb_log))
    if cb_log and not own_right:
        raise Violation('foreign-callback-completed-local',
                        'callbacks %r, but no callback message was '
                        'addressed to this host with a known id'
                        % (cb_log,))
    if cb_log:
        if cb_log[0][0] != 'B' or not any(
                strict_eq(cb_log[0][1], a_) for a_ in own_right):
            raise Violation('callback-args', '%r not among %r'
                            % (cb_log, own_right))
        if not strict_eq(cb_log[0][1], own_right[0]) and not b_touched:
            raise Violation('callback-args', 'not the first: %r vs %r'
                            % (cb_log, own_right))
    elif own_right and not b_touched:
        raise Violation('callback-missing', 'expected %r' % (own_right[0],))
    # A must be untouched by echoes: still connected, only in its own room
    # plus what valid remote messages did
    rooms_a = {'r1': False, 'r2': False}
    rooms_b = {'r1': False, 'r2': False}
    b_alive = True
    for idx, m, effect in plan:
        if not effect or effect[0] in ('cb', 'maybe'):
            continue
        method, tgt, room = effect
        faulted = fault_at.get(idx)
        rr = rooms_a if tgt == 'A' else rooms_b
        if tgt == 'B' and not b_alive:
            if method == 'close_room':
                rooms_a[room] = False
            continue
        if method == 'enter_room':
            rr[room] = True
        elif method == 'leave_room':
            rr[room] = False
        elif method == 'close_room':
            rooms_a[room] = False
            rooms_b[room] = False
        elif method == 'disconnect' and tgt == 'B':
            b_alive = False
    # malformed messages may legitimately do odd things (a close_room
    # without a room empties the namespace): the echo / state clauses are
    # judged on sequences without them
    maybe_disc = any(e and e[0] == 'maybe' for _, _, e in plan)
    if not maybe_disc:
        if not sio.manager.is_connected(A['sid'], '/'):
            raise Violation('echo-or-garbage-disconnected-client', '')
        ra = set(sio.rooms(A['sid'])) - {A['sid'], 'extra-room'}
        if ra != {r for r, v in rooms_a.items() if v}:
            raise Violation('echo-or-garbage-changed-rooms',
                            '%r expected %r' % (ra, rooms_a))
        labels['state_judged'] = True
    if b_alive and not maybe_disc:
        if not sio.manager.is_connected(B['sid'], '/'):
            raise Violation('client-B-disconnected',
                            'no valid disconnect message was sent')
    if len(kinds - {'valid', 'cb'}) >= 3 and faults:
        labels['nontrivial'] = True
    labels['kinds'] = len(kinds)
    labels['faults'] = len(faults)
    return labels


def classify(case, v):
    return v.kind


# ==========================================================================
# secondary part: the bundled Redis managers against a fake redis module

class _StopScript(BaseException):
    pass


def _redis_case_st():
    msg = st.sampled_from(['good', 'good', 'other_channel', 'subscribe',
                           'nodata'])
    seg = st.fixed_dictionaries({
        'msgs': st.lists(msg, max_size=4),
        'end': st.sampled_from(['error', 'error', 'eof']),
        'subscribe_fails': st.integers(0, 8)})
    return st.fixed_dictionaries({
        'part': st.just('redis'), 'aio': st.booleans(),
        'segments': st.lists(seg, min_size=1, max_size=6),
        'publish': st.lists(st.booleans(), min_size=2, max_size=2),
        # while the listener sits out its k-th back-off, the application
        # publishes something, the publish fails once and reconnects
        'publish_during_backoff': st.one_of(st.none(), st.none(),
                                            st.integers(0, 3))})


_main_strategy = strategy
_main_check = check_case


def strategy(tier):         # noqa: F811
    return st.one_of(_main_strategy(tier), _main_strategy(tier),
                     _main_strategy(tier), _redis_case_st())


def check_case(case):       # noqa: F811
    if case.get('part') == 'redis':
        return _check_redis(case)
    return _main_check(case)


def _check_redis(case):
    import types
    from .. import core
    core.bootstrap()
    aio = case['aio']
    state = {'seg': 0, 'sub_fail_left': 0, 'n': 0, 'sleeps': [],
             'connects': 0, 'publish_calls': 0}
    segs = case['segments']

    class RedisError(Exception):
        pass

    def mk_msg(kind, n):
        if kind == 'good':
            return {'channel': b'socketio', 'type': 'message',
                    'data': b'm%d' % n}
        if kind == 'other_channel':
            return {'channel': b'other', 'type': 'message',
                    'data': b'x%d' % n}
        if kind == 'subscribe':
            return {'channel': b'socketio', 'type': 'subscribe',
                    'data': 1}
        return {'channel': b'socketio', 'type': 'message'}

    expected = []

    def next_segment():
        if state['seg'] >= len(segs):
            raise _StopScript()
        s = segs[state['seg']]
        state['seg'] += 1
        return s

    class PubSub:
        def __init__(self, first):
            self.first = first
            self.subscribed = False

        def _subscribe(self, ch):
            if not self.first and state['sub_fail_left'] > 0:
                state['sub_fail_left'] -= 1
                raise RedisError('cannot subscribe')
            self.subscribed = True

        def _listen_items(self):
            if not self.subscribed:
                # like redis-py: nothing to listen to, the iterator ends
                state['unsub_listens'] = state.get('unsub_listens', 0) + 1
                if state['unsub_listens'] > 20:
                    raise core.Abort(
                        'redis-listener-on-unsubscribed-connection',
                        'listen() called %d times on a connection that '
                        'never subscribed to the channel'
                        % state['unsub_listens'])
                return
            s = next_segment()
            for kind in s['msgs']:
                state['n'] += 1
                m = mk_msg(kind, state['n'])
                if kind == 'good':
                    expected.append(m['data'])
                yield m
            if s['end'] == 'error':
                nxt = segs[state['seg']] if state['seg'] < len(segs) else None
                state['sub_fail_left'] = nxt['subscribe_fails'] if nxt else 0
                raise RedisError('connection lost')
        if aio:
            async def subscribe(self, ch):
                self._subscribe(ch)

            async def unsubscribe(self, ch):
                pass

            async def listen(self):
                for m in self._listen_items():
                    yield m
        else:
            def subscribe(self, ch):
                self._subscribe(ch)

            def unsubscribe(self, ch):
                pass

            def listen(self):
                yield from self._listen_items()

    class Redis:
        first = True

        @classmethod
        def from_url(cls, url, **kw):
            state['connects'] += 1
            r = cls()
            r.is_first = Redis.first
            Redis.first = False
            return r

        def pubsub(self, ignore_subscribe_messages=False):
            return PubSub(self.is_first)

        def _publish(self, ch, data):
            if state.get('fail_next_publish'):
                state['fail_next_publish'] = False
                raise RedisError('cannot publish')
            if state.get('side_publish'):
                return 1
            i = state['publish_calls']
            state['publish_calls'] += 1
            if i < len(case['publish']) and case['publish'][i]:
                raise RedisError('cannot publish')
            return 1
        if aio:
            async def publish(self, ch, data):
                return self._publish(ch, data)
        else:
            def publish(self, ch, data):
                return self._publish(ch, data)

    fake = types.SimpleNamespace(
        Redis=Redis, exceptions=types.SimpleNamespace(RedisError=RedisError))
    got = []
    stopped = [False]
    labels_extra = {}
    if aio:
        import socketio.async_redis_manager as M
        from ..detloop import DetLoop
        saved = (M.aioredis, M.RedisError)
        M.aioredis, M.RedisError = fake, RedisError
        loop = DetLoop()
        try:
            mgr = M.AsyncRedisManager('redis://', channel='socketio')

            async def consume():
                try:
                    async for d in mgr._listen():
                        got.append(d)
                except _StopScript:
                    stopped[0] = True
            t = loop.spawn(consume())
            last = loop.time()
            for _ in range(400):
                loop.run_until_idle()
                if t.done():
                    break
                nt = loop.next_timer()
                if nt is None:
                    break
                state['sleeps'].append(round(nt - loop.time(), 6))
                if case.get('publish_during_backoff') == len(
                        state['sleeps']) - 1:
                    state['fail_next_publish'] = True
                    state['side_publish'] = True
                    loop.run(mgr._publish({'method': 'emit'}))
                    state['side_publish'] = False
                    labels_extra['publish_failed_during_backoff'] = True
                loop.advance()
            if not t.done():
                raise Violation('redis-listen-stuck', '')
            if t.exception() is not None:
                raise Violation('redis-listen-raised', repr(t.exception()))
            before = state['publish_calls']
            r = loop.run(mgr._publish({'method': 'emit'}))
        finally:
            M.aioredis, M.RedisError = saved
            loop.shutdown()
    else:
        import socketio.redis_manager as M
        saved = (M.redis, M.time)
        M.redis = fake
        def fake_sleep(secs):
            state['sleeps'].append(secs)
            if case.get('publish_during_backoff') == len(
                    state['sleeps']) - 1:
                # (another thread of the application, during the sleep)
                state['fail_next_publish'] = True
                state['side_publish'] = True
                mgr._publish({'method': 'emit'})
                state['side_publish'] = False
                labels_extra['publish_failed_during_backoff'] = True
        M.time = types.SimpleNamespace(sleep=fake_sleep, time=saved[1].time)
        try:
            mgr = M.RedisManager('redis://', channel='socketio')
            try:
                for d in mgr._listen():
                    got.append(d)
            except _StopScript:
                stopped[0] = True
            before = state['publish_calls']
            r = mgr._publish({'method': 'emit'})
        finally:
            M.redis, M.time = saved
    if not stopped[0]:
        raise Violation('redis-listener-ended-by-itself',
                        'the listen loop returned before the script ended')
    if got != expected:
        raise Violation('redis-messages-lost-or-reordered',
                        '%r != %r' % (got, expected))
    # back-off model: 1, 2, 4 .. capped at 60, reset after a successful
    # re-subscribe
    want = []
    retry = 1
    for i, s in enumerate(segs):
        if s['end'] != 'error':
            continue
        want.append(retry)
        retry = min(retry * 2, 60)
        nxt = segs[i + 1] if i + 1 < len(segs) else None
        if nxt is None:
            break
        for _ in range(nxt['subscribe_fails']):
            want.append(retry)
            retry = min(retry * 2, 60)
        retry = 1
    sl = [float(x) for x in state['sleeps']]
    if sl[:len(want)] != [float(x) for x in want] or len(sl) > len(want) + 1:
        raise Violation('redis-backoff', 'sleeps %r expected %r'
                        % (sl, want))
    calls = state['publish_calls'] - before
    pf = case['publish']
    want_calls = 1 if not pf[0] else 2
    if calls != want_calls:
        raise Violation('redis-publish-retry', '%d calls, expected %d'
                        % (calls, want_calls))
    return dict(labels_extra, part='redis', aio=aio, nontrivial=len(
        [s for s in segs if s['end'] == 'error']) >= 2 or bool(labels_extra))


# ==========================================================================
# third part: the bundled Redis managers as the client manager of a real
# server, reading a scripted channel through a fake redis client that tracks
# subscriptions (a message arriving while the connection is not subscribed to
# the channel is not delivered, as with a real broker)

def _redisbus_case_st():
    junk = st.one_of(
        st.none(), st.booleans(), st.integers(-3, 10**9), st.text(max_size=6),
        st.binary(max_size=6), st.lists(st.integers(0, 3), max_size=3),
        st.dictionaries(st.text(max_size=3), st.integers(), max_size=2),
        st.sampled_from(['method', ['method'], 0, 1, 5, {'method': 5},
                         {'method': 'emit'}, {'method': None}]))
    item = st.one_of(
        st.fixed_dictionaries({'k': st.just('emit')}),
        st.fixed_dictionaries({'k': st.just('emit')}),
        st.fixed_dictionaries({'k': st.just('own')}),
        st.fixed_dictionaries({'k': st.just('hostile'), 'v': junk,
                               'enc': st.sampled_from(['pickle', 'json',
                                                       'raw'])}),
        st.fixed_dictionaries({'k': st.just('hostile'), 'v': junk,
                               'enc': st.just('pickle')}),
        st.fixed_dictionaries({'k': st.just('error')}),
        st.fixed_dictionaries({'k': st.just('nonmsg'),
                               'type': st.sampled_from(
                                   ['subscribe', 'other_channel',
                                    'nodata'])}))
    return st.fixed_dictionaries({
        'part': st.just('redisbus'), 'aio': st.booleans(),
        'items': st.lists(item, min_size=2, max_size=14)})


def _check_redisbus(case):
    import types
    from .. import core
    from ..eio_server import ServerHarness
    core.bootstrap()
    aio = case['aio']
    items = case['items']
    CH = 'socketio'
    st_ = {'i': 0, 'n': 0, 'dropped': 0, 'sleeps': [], 'outer': 0}
    expected = []
    own_id = [None]

    class RedisError(Exception):
        pass

    def encode(v, enc):
        if enc == 'pickle':
            return pickle.dumps(v)
        if enc == 'json':
            try:
                return json.dumps(v).encode()
            except TypeError:
                return pickle.dumps(v)
        if isinstance(v, bytes):
            return v
        return repr(v).encode()

    def emit_msg(host_id, n):
        return {'method': 'emit', 'event': 'e', 'data': n, 'namespace': '/',
                'room': None, 'skip_sid': None, 'callback': None,
                'host_id': host_id}

    class PubSub:
        def __init__(self):
            self.subs = set()

        def _next(self):
            """The next thing the connection hands to listen(): a message
            dict, or raises."""
            while True:
                if st_['i'] >= len(items):
                    raise _StopScript()
                it = items[st_['i']]
                st_['i'] += 1
                k = it['k']
                if k == 'error':
                    raise RedisError('connection lost')
                if k == 'nonmsg':
                    if it['type'] == 'subscribe':
                        return {'channel': CH.encode(), 'type': 'subscribe',
                                'data': 1}
                    if it['type'] == 'other_channel':
                        return {'channel': b'other', 'type': 'message',
                                'data': pickle.dumps(emit_msg('x', -1))}
                    return {'channel': CH.encode(), 'type': 'message'}
                # a message published on the channel by someone
                st_['n'] += 1
                n = st_['n']
                if k == 'emit':
                    data = pickle.dumps(emit_msg('another-host', n))
                elif k == 'own':
                    data = pickle.dumps(emit_msg(own_id[0], n))
                else:
                    data = encode(it['v'], it['enc'])
                if CH not in self.subs:
                    st_['dropped'] += 1
                    if k == 'emit':
                        expected.append(('never-delivered-unsubscribed', n))
                    continue
                if k == 'emit':
                    expected.append(n)
                return {'channel': CH.encode(), 'type': 'message',
                        'data': data}
        if aio:
            async def subscribe(self, ch):
                self.subs.add(ch)

            async def unsubscribe(self, ch):
                self.subs.discard(ch)

            async def listen(self):
                while True:
                    yield self._next()
        else:
            def subscribe(self, ch):
                self.subs.add(ch)

            def unsubscribe(self, ch):
                self.subs.discard(ch)

            def listen(self):
                while True:
                    yield self._next()

    class Redis:
        @classmethod
        def from_url(cls, url, **kw):
            return cls()

        def pubsub(self, ignore_subscribe_messages=False):
            return PubSub()
        if aio:
            async def publish(self, ch, data):
                return 1
        else:
            def publish(self, ch, data):
                return 1

    fake = types.SimpleNamespace(
        Redis=Redis, exceptions=types.SimpleNamespace(RedisError=RedisError))
    if aio:
        import socketio.async_redis_manager as M
        saved = (M.aioredis, M.RedisError)
        M.aioredis, M.RedisError = fake, RedisError
    else:
        import socketio.redis_manager as M
        saved = (M.redis, M.time)
        M.redis = fake
        M.time = types.SimpleNamespace(
            sleep=lambda s: st_['sleeps'].append(s), time=saved[1].time)
    h = None
    try:
        if aio:
            mgr = M.AsyncRedisManager('redis://', channel=CH)
        else:
            mgr = M.RedisManager('redis://', channel=CH)
        own_id[0] = mgr.host_id
        h = ServerHarness(aio=aio, client_manager=mgr)
        sio = h.sio
        logged = []

        class _L:
            def exception(self, msg, *a, **k):
                logged.append(msg)

            def error(self, msg, *a, **k):
                logged.append(msg)

            def _n(self, *a, **k):
                pass
            debug = info = warning = critical = log = _n

            def isEnabledFor(self, lvl):
                return False
        sio.logger = _L()
        sio.on('connect', lambda sid, environ, auth=None: None)
        t = h.open()
        for f in wire.frames(wire.CONNECT, '/'):
            h.feed(t, f)
        r = wire.Reader()
        r.read(h.drain_msgs(t))
        stopped = False
        if aio:
            task = h.loop.spawn(mgr._thread())
            for _ in range(400):
                h.loop.run_until_idle()
                if task.done():
                    break
                if not h.loop.advance():
                    break
            if not task.done():
                raise Violation('redisbus-listener-stuck',
                                'the listener neither consumes the channel '
                                'nor waits for a timer')
            try:
                task.result()
            except _StopScript:
                stopped = True
            # finalisers of abandoned generators run as loop tasks
            h.loop.run_until_idle()
        else:
            try:
                mgr._thread()
            except _StopScript:
                stopped = True
        if not stopped:
            raise Violation('redisbus-listener-ended',
                            'the listener thread returned although the '
                            'channel was still open; log: %r' % logged[-3:])
        got = [p['data'][1] for p in r.read(h.drain_msgs(t))
               if p['type'] == wire.EVENT and p['data'][0] == 'e']
        if got != expected:
            raise Violation('redisbus-messages-lost',
                            'delivered %r, emitted by other hosts %r '
                            '(%d messages arrived while the connection was '
                            'not subscribed)' % (got, expected,
                                                 st_['dropped']))
        kinds = {it['k'] for it in items}
        outer = sum(1 for m in logged if 'Unexpected Error' in str(m))
        return {'part': 'redisbus', 'aio': aio,
                'listener_restarted': outer > 0,
                'nontrivial': outer > 0 and 'emit' in kinds}
    finally:
        if aio:
            M.aioredis, M.RedisError = saved
        else:
            M.redis, M.time = saved
        if h is not None:
            h.close()


_prev_strategy = strategy
_prev_check = check_case


def strategy(tier):         # noqa: F811
    return st.one_of(_main_strategy(tier), _main_strategy(tier),
                     _main_strategy(tier), _redis_case_st(),
                     _redisbus_case_st())


def check_case(case):       # noqa: F811
    if case.get('part') == 'redisbus':
        return _check_redisbus(case)
    return _prev_check(case)
