"""C10 Client reconnection: only after accidental loss, bounded back-off and
attempts."""
import asyncio
import itertools

from hypothesis import strategies as st

from .. import wire
from ..case import strict_eq
from ..core import Violation
from ..eio_client import ClientHarness

PID = 'C10'
KNOWN = set()
KF_STALE = 'no-new-effort-after-finished-effort'
KF_LATE = 'connect-reply-processed-after-transport-loss'
RULE = ('Configuration grid reconnection on/off x reconnection_attempts '
        '{0,1,2,5} x reconnection_delay {0.1,1,3} x reconnection_delay_max '
        '{0.5,5,100} x randomization_factor {0,0.5,1}; connection parameters '
        'as values or callables, 1-3 namespaces; cause of loss {transport '
        'error, client disconnect(), server DISCONNECT of the last '
        'namespace (also overlapping the loss of the transport, with '
        'asynchronous disconnect handlers), server CLOSE}; outcome pattern '
        'of the successive '
        'attempts {transport failure, namespace refusal, transport lost again before the namespaces are answered, '
        'lost between the answers and connect() waking up, lost with the '
        'loss processed before the answers\' handler tasks, accepted and '
        'then disconnected by the server within the attempt (no further '
        'attempt), success} (all '
        'patterns up to length 4 enumerated, longer ones sampled); '
        'shutdown() during the k-th back-off wait; the application connect '
        'handler of one namespace raising, or stalling longer than the '
        "attempt's wait, at its j-th invocation during the effort (the "
        'server accepted: still the first success); a disconnect handler '
        'that raises at the loss; a further loss right '
        'after a successful reconnection; a manual connect() and another '
        'loss after an effort ended. Waits are observed as the arguments of '
        'the wait primitives (threaded: harness event; asyncio: wait_for '
        'argument on the virtual-time loop). Oracle: effort iff enabled and '
        'accidental; one effort at a time; k-th wait within b_k +- '
        'randomization_factor, b_k = min(delay*2**(k-1), delay_max); number '
        'of attempts; every attempt with the original url / headers / '
        'transports / path / namespaces / auth (callables re-evaluated); '
        'connect handlers again after success; no attempt after intentional '
        'causes, with reconnection off, or after shutdown(). Non-trivial: '
        '>=2 failed attempts, or an abort, or a second loss after a '
        'successful reconnection. Also generated: the application calls '
        'disconnect() while the loss is being reported (from the disconnect '
        'handler; asyncio: from another task while the handler is '
        'suspended) - no effort may follow; a connect_error handler that '
        'raises at its j-th invocation during the effort - the effort goes '
        'on.'
        ' The judged connection can be preceded by an earlier life of the same client object that the server ended (optionally with a failing disconnect handler).'
        ' Cause sdisc_partial (asyncio, >=2 namespaces): the server ends one namespace and the transport is lost while the disconnect handler of that namespace is suspended - an accidental loss, exactly one effort starts.')
ASSUMPTIONS = [
    'waiting is observed through the wait primitives, never by wall clock',
    '"retries until success" is checked as bounded safety (finite patterns; '
    'unbounded efforts are ended by shutdown())',
]
BUDGET = {'quick': 8000, 'thorough': 80000}
FLOOR = {'quick': 150, 'thorough': 5000}
NSS = ['/', '/a', '/b']
EXHAUSTIVE = True
EXHAUSTIVE_SCOPE = ('all outcome patterns over {fail, refuse, drop, ok} up to '
                    'length 3 (quick) / 5 (thorough) x attempts {0,1,2,5} x '
                    'both clients, with one fixed delay configuration')


def enumerate_cases(tier):
    maxlen = 3 if tier == 'quick' else 5
    for aio in (False, True):
        for att in (0, 1, 2, 5):
            for n in range(0, maxlen + 1):
                for pat in itertools.product(['fail', 'refuse', 'drop', 'ok'],
                                             repeat=n):
                    yield {'aio': aio, 'reconnection': True, 'attempts': att,
                           'delay': 1, 'delay_max': 5, 'rf': 0.5,
                           'nss': [0, 1], 'auth': {'t': 1},
                           'auth_callable': True, 'url_callable': False,
                           'headers': {'h': '1'}, 'transports': None,
                           'cause': 'lose', 'outcomes': list(pat),
                           'abort_at': None, 'second_loss': n % 2 == 1,
                           'manual': n % 2 == 0}


def strategy(tier):
    return st.fixed_dictionaries({
        'aio': st.booleans(),
        'reconnection': st.sampled_from([True, True, True, False]),
        'attempts': st.sampled_from([0, 1, 2, 5]),
        'delay': st.sampled_from([0.1, 1, 3]),
        'delay_max': st.sampled_from([0.5, 5, 100]),
        'rf': st.sampled_from([0, 0.5, 1]),
        'nss': st.lists(st.integers(0, 2), min_size=1, max_size=3,
                        unique=True),
        'auth': st.one_of(st.none(), st.just({'token': 'x'}),
                          st.just('tok')),
        'auth_callable': st.booleans(), 'url_callable': st.booleans(),
        'headers': st.sampled_from([{}, {'X-A': 'b'}]),
        'transports': st.sampled_from([None, ['polling'], ['websocket'],
                                       ['websocket', 'polling']]),
        # ('sdisc_overlap': the server ends every namespace and the transport
        # is lost while the application's asynchronous disconnect handlers
        # are still running)
        # ('lose_app_disc': at the loss the application decides not to come
        # back: its disconnect handler calls disconnect(), or - asyncio -
        # another task of the application does while that handler is
        # suspended)
        'cause': st.sampled_from(['lose', 'lose', 'lose', 'disconnect',
                                  'sdisc_last', 'close', 'sdisc_overlap',
                                  'lose_app_disc', 'sdisc_partial']),
        'app_disc_by': st.sampled_from(['handler', 'task']),
        # ('kicked': the server accepts the returning client and ends one
        # of its namespaces right behind the acceptance)
        'outcomes': st.lists(st.sampled_from(['fail', 'fail', 'refuse',
                                              'drop', 'drop_after',
                                              'drop_inverted', 'ok',
                                              'kicked']),
                             max_size=8),
        'abort_at': st.one_of(st.none(), st.none(), st.integers(1, 6)),
        'second_loss': st.booleans(), 'manual': st.booleans(),
        # the application's connect handler of one namespace faults at its
        # j-th invocation during the first reconnection effort
        # the application's disconnect handler of one namespace raises when
        # the transport is lost: the reconnection effort starts all the same
        'dhf': st.one_of(st.none(), st.none(), st.integers(0, 2)),
        # an earlier life of the same client object: connected, ended by
        # the server (DISCONNECT of every namespace; 'raise': one of the
        # application's disconnect handlers fails) - nothing of it may
        # change what the judged connection does
        'prior_life': st.sampled_from([None, None, 'clean', 'raise']),
        # the application's connect_error handler raises at its j-th
        # invocation during the effort: that attempt has failed all the same
        'cehf': st.one_of(st.none(), st.none(), st.integers(1, 4)),
        'chf': st.one_of(st.none(), st.none(), st.fixed_dictionaries({
            'ns': st.integers(0, 2), 'j': st.integers(1, 3),
            'mode': st.sampled_from(['raise', 'stall'])}))})


def check_case(case):
    h = ClientHarness(
        aio=case['aio'], reconnection=case['reconnection'],
        reconnection_attempts=case['attempts'],
        reconnection_delay=case['delay'],
        reconnection_delay_max=case['delay_max'],
        randomization_factor=case['rf'])
    orig_wait_for = asyncio.wait_for
    try:
        return _run(case, h)
    finally:
        asyncio.wait_for = orig_wait_for
        h.close()


def _run(case, h):
    import socketio
    sio = h.sio
    aio = case['aio']
    nss = [NSS[i] for i in case['nss']]
    log = []
    chf = case.get('chf')
    chf_state = {'on': False, 'n': 0, 'hit': False}

    def mk_connect(n):
        def faulty():
            if chf and chf_state['on'] and \
                    n == nss[chf['ns'] % len(nss)]:
                chf_state['n'] += 1
                if chf_state['n'] == chf['j']:
                    chf_state['hit'] = True
                    return True
            return False
        if aio:
            async def on_connect():
                log.append(('connect', n))
                if faulty():
                    if chf['mode'] == 'stall':
                        # longer than the 1 s a reconnection attempt waits
                        await asyncio.sleep(1.3)
                    else:
                        raise RuntimeError('application connect handler '
                                           'fault')
        else:
            def on_connect():
                log.append(('connect', n))
                if faulty():
                    raise RuntimeError('application connect handler fault')
        return on_connect
    dhf_state = {'on': False, 'hit': False}

    slow_disc = [False]

    app_disc = {'on': False, 'done': False}

    def mk_disconnect(n):
        def on_disconnect(*a):
            log.append(('disconnect', n) + a)
            if app_disc['on'] and not app_disc['done'] and not aio:
                app_disc['done'] = True
                sio.disconnect()
            if dhf_state['on'] and case.get('dhf') is not None and \
                    n == nss[case['dhf'] % len(nss)]:
                dhf_state['hit'] = True
                raise RuntimeError('application disconnect handler fault')
        if not aio:
            return on_disconnect

        async def a_on_disconnect(*a):
            on_disconnect(*a)
            if app_disc['on'] and not app_disc['done'] and \
                    case.get('app_disc_by') != 'task':
                app_disc['done'] = True
                await sio.disconnect()
            if slow_disc[0]:
                for _ in range(4):
                    await asyncio.sleep(0)
        return a_on_disconnect
    cehf_state = {'on': False, 'n': 0, 'hit': False}

    def on_connect_error(*a):
        if cehf_state['on'] and case.get('cehf') is not None:
            cehf_state['n'] += 1
            if cehf_state['n'] == case['cehf']:
                cehf_state['hit'] = True
                raise RuntimeError('application connect_error handler fault')
    if aio:
        async def a_on_connect_error(*a):
            on_connect_error(*a)
    for n in NSS:
        sio.on('connect', mk_connect(n), namespace=n)
        sio.on('disconnect', mk_disconnect(n), namespace=n)
        sio.on('connect_error', a_on_connect_error if aio else
               on_connect_error, namespace=n)
    calls = {'auth': 0, 'url': 0}

    def auth_fn():
        calls['auth'] += 1
        return case['auth']

    def url_fn():
        calls['url'] += 1
        return 'http://host:1/x'
    auth_arg = auth_fn if case['auth_callable'] else case['auth']
    url_arg = url_fn if case['url_callable'] else 'http://host:1/x'
    reader = wire.Reader()
    backoffs = []        # recorded back-off waits
    cur = {'outcome': 'ok'}
    inverted = [False]
    labels = {'aio': aio, 'cause': case['cause'], 'nontrivial': False}

    def answers(*_):
        """The scripted server answers the CONNECT packets of the current
        engine connection."""
        if h.eio.state != 'connected':
            return
        pend = [n for n in nss if n not in sio.namespaces]
        if not pend:
            return
        if cur['outcome'] == 'drop':
            if not cur.get('refused'):
                # the transport is lost again before the server answered
                cur['refused'] = True
                h.lose()
            return
        if cur['outcome'] == 'refuse' and not cur.get('refused'):
            cur['refused'] = True
            for f in wire.frames(wire.CONNECT_ERROR, pend[-1], None, 'no'):
                h.deliver(f)
            return
        if cur['outcome'] == 'refuse':
            return
        if cur['outcome'] == 'drop_inverted':
            if cur.get('refused'):
                return
            # the read loop reads the server's CONNECT replies and the end of
            # the transport back to back: it reports the loss itself, the
            # replies are handled by background tasks / threads that only
            # run afterwards
            cur['refused'] = True
            inverted[0] = True
            frs = [f for n in pend for f in wire.frames(
                wire.CONNECT, n, None, {'sid': 'sid-%d-%s' % (h.n_conn, n)})]
            if aio:
                from engineio import packet as ep
                for f in frs:
                    h.loop.spawn(h.eio._receive_packet(
                        ep.Packet(ep.MESSAGE, f)))

                async def tail2():
                    await h.eio._trigger_event(
                        'disconnect', h.reason.TRANSPORT_ERROR,
                        run_async=False)
                    await h.eio._reset()
                h.loop.spawn(tail2())
                h.loop.run_until_idle()
            else:
                saved_mode = h.bg_mode
                h.bg_mode = 'collect'
                try:
                    for f in frs:
                        h.deliver(f)
                finally:
                    h.bg_mode = saved_mode
                h.lose()
                h.settle()
            return
        if cur['outcome'] in ('kicked', 'closed'):
            if cur.get('refused'):
                return
            cur['refused'] = True
            frs = [f for n in pend for f in wire.frames(
                wire.CONNECT, n, None, {'sid': 'sid-%d-%s' % (h.n_conn, n)})]
            closed = cur['outcome'] == 'closed'
            if not closed:
                frs += wire.frames(wire.DISCONNECT, pend[-1])
            if aio:
                from engineio import packet as ep
                for f in frs:
                    h.loop.spawn(h.eio._receive_packet(
                        ep.Packet(ep.MESSAGE, f)))
                if closed:
                    # ... and closes the connection behind the acceptance
                    h.loop.spawn(h.eio._receive_packet(ep.Packet(ep.CLOSE)))
                h.loop.run_until_idle()
            else:
                for f in frs:
                    h.deliver(f)
                if closed:
                    h.server_close()
            labels['server_close_during_attempt' if closed else
                   'server_disconnect_during_attempt'] = True
            return
        if cur['outcome'] == 'drop_after':
            if cur.get('refused'):
                return
            # every namespace is accepted, and the transport is lost again
            # before connect() gets to look at the result
            cur['refused'] = True
            frs = [f for n in pend for f in wire.frames(
                wire.CONNECT, n, None, {'sid': 'sid-%d-%s' % (h.n_conn, n)})]
            if aio:
                from engineio import packet as ep
                for f in frs:
                    h.loop.spawn(h.eio._receive_packet(
                        ep.Packet(ep.MESSAGE, f)))
                # the read loop hands the packets to their handler tasks ...
                h.loop.step()

                # ... and notices the loss: the handler tasks run first, then
                # the loss is processed, then connect() wakes up
                async def tail():
                    await h.eio._trigger_event(
                        'disconnect', h.reason.TRANSPORT_ERROR,
                        run_async=False)
                    await h.eio._reset()
                h.loop.spawn(tail())
                h.loop.run_until_idle()
            else:
                for f in frs:
                    h.deliver(f)
                h.lose()
            return
        for n in pend:
            for f in wire.frames(wire.CONNECT, n, None,
                                 {'sid': 'sid-%d-%s' % (h.n_conn, n)}):
                h.deliver(f)

    # ---- waits ----------------------------------------------------------
    state = {'k': 0, 'abort_at': None, 'limit': 0, 'aborted': False}

    def on_backoff(timeout):
        """Book-keeping at the start of the k-th back-off wait; returns
        whether the harness wants to abort at this wait."""
        state['k'] += 1
        backoffs.append(timeout)
        k = state['k']
        outs = state['outcomes']
        nxt = outs[k - 1] if k - 1 < len(outs) else 'fail'
        cur['outcome'] = nxt
        cur['refused'] = False
        h.plan[:] = ['fail' if nxt == 'fail' else 'ok']
        return (state['abort_at'] is not None and k >= state['abort_at']) \
            or k > state['limit']

    if aio:
        async def rec_wait_for(fut, timeout):
            frame = getattr(fut, 'cr_frame', None)
            waited = frame.f_locals.get('self') if frame is not None else None
            if waited is not sio._reconnect_abort or \
                    not state.get('active'):
                # connect() waiting for the server's answers
                state['phase'] = 'connect'
                try:
                    return await rec_wait_for.orig(fut, timeout)
                finally:
                    state['phase'] = 'running'
            state['want_abort'] = on_backoff(timeout)
            state['phase'] = 'backoff'
            try:
                return await rec_wait_for.orig(fut, timeout)
            finally:
                state['phase'] = 'running'
        rec_wait_for.orig = asyncio.wait_for
        asyncio.wait_for = rec_wait_for
    else:
        def on_wait(ev, timeout):
            if ev is sio._reconnect_abort:
                if on_backoff(timeout):
                    state['aborted'] = True
                    sio.shutdown()
            else:
                answers()
        h.on_wait = on_wait

    def connect_manual():
        cur['outcome'] = 'ok'
        h.plan[:] = ['ok']
        kw = dict(headers=case['headers'], auth=auth_arg,
                  transports=case['transports'], namespaces=nss,
                  socketio_path='sock')
        if aio:
            task = h.loop.spawn(sio.connect(url_arg, **kw))
            h.loop.run_until_idle()
            answers()
            h.loop.run_until_idle()
            if not task.done() or task.exception() is not None:
                raise Violation('manual-connect-failed', repr(task))
        else:
            sio.connect(url_arg, **kw)
        reader.read(h.take_msgs())

    def mark(abort_at=None, limit=3, outcomes=()):
        """A loss is about to happen: from now on waits made while the
        engine is down are back-off waits of a new effort with these
        parameters."""
        state['tasks_before'] = len([1 for n, t in h.tasks
                                     if n == '_handle_reconnect'])
        state.update(k=0, active=True, phase='running', want_abort=False,
                     abort_at=abort_at, limit=limit, aborted=False,
                     outcomes=list(outcomes))
        del backoffs[:]

    def effort_count():
        return h.started.count('_handle_reconnect')

    def run_effort():
        """Drives the pending reconnection effort to its end; returns the
        list of back-off waits of this effort."""
        if aio:
            tasks = [t for n, t in h.tasks if n == '_handle_reconnect']
            tasks = tasks[state.get('tasks_before', 0):]
            if len(tasks) != 1:
                raise Violation('effort-count', '%d efforts for one loss'
                                % len(tasks))
            task = tasks[0]
            guard = 0
            while not task.done():
                guard += 1
                if guard > 400:
                    raise Violation('effort-never-ends', '')
                if state.get('phase') == 'backoff' and \
                        state.get('want_abort'):
                    # the task is parked in a back-off wait: shutdown() now
                    state['aborted'] = True
                    h.loop.run(sio.shutdown())
                    break
                if h.eio.state == 'connected' and any(
                        n not in sio.namespaces for n in nss) and \
                        not (cur['outcome'] in ('refuse', 'drop',
                                                'drop_after', 'kicked', 'closed',
                                                'drop_inverted') and
                             cur.get('refused')):
                    answers()
                    h.loop.run_until_idle()
                    continue
                if not h.loop.advance():
                    h.loop.run_until_idle()
                    if not task.done():
                        raise Violation('effort-stuck', '')
            h.loop.run_until_idle()
            if task.done() and not task.cancelled() and task.exception():
                raise Violation('effort-raised', repr(task.exception()))
        else:
            tasks = h.reconnect_tasks()
            if len(tasks) != 1:
                raise Violation('effort-count', '%d pending efforts'
                                % len(tasks))
            tasks[0].run()
            if tasks[0].exc is not None:
                raise Violation('effort-raised', repr(tasks[0].exc))
            h.bg[:] = [b for b in h.bg if not b.done]
        return list(backoffs)

    def expected_attempts(outcomes, abort_at, limit, waits):
        """(number of attempts, how it ended).  The asyncio client can only
        be aborted while it is parked, i.e. at a wait with a positive
        timeout (a non-positive jittered delay returns at once)."""
        k = 0
        while True:
            k += 1
            want = (abort_at is not None and k >= abort_at) or k > limit
            can = (not aio) or (k - 1 < len(waits) and waits[k - 1] > 0)
            if want and can:
                return k - 1, 'abort'
            out = outcomes[k - 1] if k - 1 < len(outcomes) else 'fail'
            if out == 'ok':
                return k, 'success'
            if out in ('kicked', 'closed'):
                # the server disconnected the client: no further attempt
                return k, 'kicked'
            if case['attempts'] and k >= case['attempts']:
                return k, 'exhausted'
            if k > 300:
                return k, 'runaway'

    def check_effort(waits, n_before, conn_before, auth_before, url_before,
                     outcomes, abort_at, limit, what):
        n_exp, how = expected_attempts(outcomes, abort_at, limit, waits)
        att = h.attempts[n_before:]
        if len(att) != n_exp:
            raise Violation('attempt-count', '%s: %d attempts, expected %d '
                            '(%s); outcomes %r abort_at %r attempts=%r'
                            % (what, len(att), n_exp, how, outcomes,
                               abort_at, case['attempts']))
        n_waits = n_exp + (1 if how == 'abort' else 0)
        if how == 'kicked' and len(waits) == n_exp + 1:
            n_waits += 1    # (how the effort notices is not prescribed)
        if len(waits) != n_waits:
            raise Violation('wait-count', '%s: waits %r, expected %d'
                            % (what, waits, n_waits))
        for k, wv in enumerate(waits, 1):
            b = min(case['delay'] * 2 ** (k - 1), case['delay_max'])
            if not (b - case['rf'] - 1e-9 <= wv <= b + case['rf'] + 1e-9):
                raise Violation('backoff-out-of-range',
                                '%s: wait #%d = %r, expected %r +- %r'
                                % (what, k, wv, b, case['rf']))
        tr = case['transports'] or ['polling', 'websocket']
        for a in att:
            if a['url'] != 'http://host:1/x' or a['headers'] != \
                    case['headers'] or a['transports'] != tr or \
                    a['path'] != 'sock':
                raise Violation('attempt-parameters', '%s: %r' % (what, a))
        if case['url_callable'] and calls['url'] - url_before != n_exp:
            raise Violation('url-callable-evaluations', what)
        # CONNECT frames of the attempts that opened the engine
        opened = [o for o in (outcomes + ['fail'] * 20)[:n_exp]
                  if o != 'fail']
        pk = reader.read(h.take_msgs())
        conn = [p for p in pk if p['type'] == wire.CONNECT]
        if sorted(p['nsp'] for p in conn) != sorted(nss * len(opened)):
            raise Violation('reconnect-connect-frames',
                            '%s: %r' % (what, conn))
        for p in conn:
            if not strict_eq(p['data'], case['auth'] or {}):
                raise Violation('reconnect-auth', '%s: %r' % (what, p))
        if case['auth_callable'] and calls['auth'] - auth_before != \
                len(opened):
            raise Violation('auth-callable-evaluations',
                            '%s: %d evaluations for %d openings'
                            % (what, calls['auth'] - auth_before,
                               len(opened)))
        newc = [e for e in log[conn_before:] if e[0] == 'connect']
        if how == 'success':
            refused_ns = sum(1 for o in opened if o in (
                'refuse', 'drop', 'drop_after', 'drop_inverted'))
            okc = sorted(e[1] for e in newc)
            # attempts that ended in a refusal may have connected some
            # namespaces first; the successful one connects all of them
            need = sorted(nss)
            if [n for n in need if okc.count(n) < 1] or len(okc) > len(
                    nss) * (1 + refused_ns):
                raise Violation('connect-handlers-after-reconnect',
                                '%s: %r' % (what, newc))
            if not sio.connected or set(sio.namespaces) != set(nss):
                raise Violation('not-connected-after-reconnect', what)
        else:
            if sio.connected:
                raise Violation('connected-after-giving-up', what)
        return n_exp, how

    # =====================================================================
    n_prior = 0
    if case.get('prior_life'):
        connect_manual()
        if case['prior_life'] == 'raise':
            dhf_state['on'] = True
            prior_dhf = case.get('dhf')
            case = dict(case, dhf=0 if prior_dhf is None else prior_dhf)
        for n in nss:
            for f in wire.frames(wire.DISCONNECT, n):
                h.deliver(f)
        if aio:
            h.loop.run_until_idle()
        if dhf_state['on']:
            dhf_state['on'] = False
            dhf_state['hit'] = False
            case = dict(case, dhf=prior_dhf)
        h.swallowed[:] = []
        h.bg_errors[:] = []
        if sio.connected or h.eio.state == 'connected':
            raise Violation('connected-after-server-disconnect', '')
        if effort_count():
            raise Violation('effort-after-intentional-end', 'earlier life')
        n_prior = len(h.attempts)
        del log[:]
        reader.read(h.take_msgs())
        labels['earlier_life_' + case['prior_life']] = True
    connect_manual()
    n0 = len(h.attempts)
    if n0 - n_prior != 1:
        raise Violation('initial-attempts', repr(h.attempts))
    e0 = effort_count()
    cause = case['cause']
    limit = len(case['outcomes']) + 1 if not case['attempts'] else 50
    mark(case['abort_at'], limit, case['outcomes'])
    reader.read(h.take_msgs())
    cb, ab, ub = len(log), calls['auth'], calls['url']
    if cause == 'lose':
        dhf_state['on'] = True
        h.lose()
        dhf_state['on'] = False
        h.swallowed[:] = [e for e in h.swallowed if
                          'disconnect handler' not in str(e)]
        if dhf_state['hit']:
            labels['disconnect_handler_fault_at_the_loss'] = True
            labels['nontrivial'] = True
    elif cause == 'lose_app_disc':
        app_disc['on'] = True
        if aio and case.get('app_disc_by') == 'task':
            slow_disc[0] = True

            async def tail():
                await h.eio._trigger_event('disconnect',
                                           h.reason.TRANSPORT_ERROR,
                                           run_async=False)
                await h.eio._reset()
            lt = h.loop.spawn(tail())
            h.loop.step()
            h.loop.step()
            if not lt.done():
                app_disc['done'] = True
                h.loop.spawn(sio.disconnect())
                labels['disconnect_while_loss_handler_suspended'] = True
            h.loop.run_until_idle()
            slow_disc[0] = False
        else:
            h.lose()
        app_disc['on'] = False
        h.swallowed[:] = []
        if not app_disc['done']:
            cause = 'lose'      # (nothing was connected: a plain loss)
        else:
            labels['application_disconnects_at_the_loss'] = True
    elif cause == 'sdisc_overlap' and aio:
        from engineio import packet as ep
        slow_disc[0] = True
        for n in nss:
            for f in wire.frames(wire.DISCONNECT, n):
                h.loop.spawn(h.eio._receive_packet(ep.Packet(ep.MESSAGE, f)))
        h.loop.step()
        h.loop.step()
        h.lose()
        h.loop.run_until_idle()
        slow_disc[0] = False
        labels['server_disconnect_overlaps_the_loss'] = True
    elif cause == 'sdisc_partial':
        # the server ends ONE of several namespaces and the transport is
        # lost while that namespace's asynchronous disconnect handler is
        # still running: the other namespaces were not being ended by
        # anyone, this is an accidental loss
        if aio and len(nss) >= 2:
            from engineio import packet as ep
            slow_disc[0] = True
            for f in wire.frames(wire.DISCONNECT, nss[0]):
                h.loop.spawn(h.eio._receive_packet(ep.Packet(ep.MESSAGE, f)))
            h.loop.step()
            h.loop.step()
            h.lose()
            h.loop.run_until_idle()
            slow_disc[0] = False
            labels['partial_server_disconnect_overlaps_the_loss'] = True
        else:
            h.lose()
        cause = 'lose'
    elif cause == 'disconnect':
        h.do(sio.disconnect())
    elif cause == 'close':
        h.server_close()
    else:
        for n in nss:
            for f in wire.frames(wire.DISCONNECT, n):
                h.deliver(f)
    if aio:
        h.loop.run_until_idle()
    should = case['reconnection'] and cause == 'lose'
    started = effort_count() - e0
    if not should:
        if started:
            raise Violation('effort-after-intentional-end',
                            'cause %s reconnection=%r' % (
                                cause, case['reconnection']))
        # nothing may ever happen: let time pass
        if aio:
            for _ in range(5):
                if not h.loop.advance():
                    break
        if len(h.attempts) != n0:
            raise Violation('attempt-after-intentional-end', cause)
        labels['no_effort'] = True
        labels['nontrivial'] = cause != 'lose'
        return labels
    if started != 1:
        raise Violation('effort-count', '%d efforts started' % started)
    chf_state['on'] = True
    cehf_state['on'] = True
    waits = run_effort()
    chf_state['on'] = False
    cehf_state['on'] = False
    if cehf_state['hit']:
        h.swallowed[:] = [e for e in h.swallowed if
                          'connect_error handler' not in str(e)]
        h.bg_errors[:] = [e for e in h.bg_errors if
                          'connect_error handler' not in str(e)]
        labels['connect_error_handler_fault'] = True
        labels['nontrivial'] = True
    if aio:
        h.loop.run_until_idle()
    if inverted[0] and sio.connected and h.eio.state != 'connected':
        # the effort ended "successfully" on a connection that was already
        # dead: the late CONNECT reply re-registered the namespaces
        det = ('a reconnection attempt whose CONNECT replies were handled '
               'after the loss of that transport had been processed: '
               'connect() succeeded, the effort stopped, connected=%r '
               'namespaces=%r over a transport in state %r'
               % (sio.connected, dict(sio.namespaces), h.eio.state))
        if KF_LATE in KNOWN:
            labels['kf:' + KF_LATE] = True
            return labels
        raise Violation(KF_LATE, det)
    n_att, how = check_effort(waits, n0, cb, ab, ub, case['outcomes'],
                              case['abort_at'], limit, 'first effort')
    if chf_state['hit']:
        labels['connect_handler_fault'] = True
        labels['nontrivial'] = True
    labels['how'] = how
    labels['attempts'] = min(n_att, 6)
    fails = sum(1 for o in (case['outcomes'] + ['fail'] * 20)[:n_att]
                if o != 'ok')
    if fails >= 2 or how == 'abort':
        labels['nontrivial'] = True
    # nothing further may happen once the effort is over
    n1 = len(h.attempts)
    if aio and how != 'success':
        for _ in range(4):
            if not h.loop.advance():
                break
    if len(h.attempts) != n1 or effort_count() - e0 != 1:
        raise Violation('attempt-after-effort-ended', how)

    # ---- what comes after -------------------------------------------------
    if how == 'success' and case['second_loss']:
        e1 = effort_count()
        reader.read(h.take_msgs())
        cb, ab, ub = len(log), calls['auth'], calls['url']
        n1 = len(h.attempts)
        mark(None, 3, [])
        h.lose()
        if aio:
            h.loop.run_until_idle()
        if effort_count() - e1 != 1:
            raise Violation('no-effort-after-second-loss',
                            '%d efforts' % (effort_count() - e1))
        waits = run_effort()
        check_effort(waits, n1, cb, ab, ub, [], None, 3,
                     'effort after second loss')
        labels['nontrivial'] = True
        labels['second_loss'] = True
    elif how != 'success' and case['manual']:
        e1 = effort_count()
        connect_manual()
        cb, ab, ub = len(log), calls['auth'], calls['url']
        n1 = len(h.attempts)
        mark(None, 2, [])
        h.lose()
        if aio:
            h.loop.run_until_idle()
        if effort_count() - e1 != 1:
            det = 'after an effort that ended by %s, a manual connect() ' \
                  'and a new accidental loss: %d efforts started' % (
                      how, effort_count() - e1)
            if effort_count() - e1 == 0:
                if KF_STALE in KNOWN:
                    labels['kf:' + KF_STALE] = True
                    return labels
                raise Violation(KF_STALE, det)
            raise Violation('effort-count', det)
        waits = run_effort()
        check_effort(waits, n1, cb, ab, ub, [], None, 2,
                     'effort after manual reconnect')
        labels['manual_then_loss'] = True
    return labels


def classify(case, v):
    return v.kind
