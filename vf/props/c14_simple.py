"""C14, simple-client family: the same sequential script against SimpleClient
and AsyncSimpleClient."""
from hypothesis import strategies as st

from .. import core
from .. import strategies as S
from .. import wire
from ..detloop import DetLoop
from ..eio_client import ClientHarness


def strategy(tier):
    big = tier == 'thorough'
    arg = S.tree_st(with_bytes=True, max_leaves=3)
    op = st.one_of(
        st.fixed_dictionaries({'op': st.just('ev'),
                               'name': st.sampled_from(['a', 'message',
                                                        'x y']),
                               'args': st.lists(arg, max_size=2)}),
        st.fixed_dictionaries({'op': st.just('ev'),
                               'name': st.sampled_from(['a', 'b']),
                               'args': st.lists(arg, max_size=2)}),
        st.fixed_dictionaries({'op': st.just('recv')}),
        st.fixed_dictionaries({'op': st.just('recv')}),
        st.fixed_dictionaries({'op': st.just('emit'),
                               'data': S.payload_st(max_leaves=3)}),
        # call() is always acknowledged here: SimpleClient.call() retries on
        # every SocketIOError including TimeoutError, i.e. an unanswered
        # call never returns (see DESIGN.md, observations)
        st.fixed_dictionaries({'op': st.just('call'),
                               'ack': st.lists(arg, max_size=2)}),
        st.fixed_dictionaries({'op': st.just('lose_reconnect'),
                               'ok': st.booleans()}),
        st.fixed_dictionaries({'op': st.just('sdisc')}),
        st.fixed_dictionaries({'op': st.just('disconnect')}),
        st.fixed_dictionaries({'op': st.just('connect')}),
    )
    sc = st.fixed_dictionaries({
        'ns': st.sampled_from(['/', '/chat']),
        'ops': st.lists(op, min_size=4, max_size=30 if big else 14)})
    return st.fixed_dictionaries({'family': st.just('simple'), 'sc': sc})


class _NowEvent:
    """threading.Event stand-in for a sequential script: never blocks."""

    def __init__(self):
        self.flag = False

    def set(self):
        self.flag = True

    def clear(self):
        self.flag = False

    def is_set(self):
        return self.flag

    def wait(self, timeout=None):
        self.n = getattr(self, 'n', 0) + 1
        if (not self.flag and timeout is None) or self.n > 20000:
            raise core.HarnessError('sequential script would block for ever')
        return self.flag


def run(case, aio):
    socketio = core.bootstrap()
    sc_case = case['sc']
    ns = sc_case['ns']
    loop = DetLoop() if aio else None
    holder = {}
    trace = []
    labels = {'entry_points': set(), 'faults': 0}
    try:
        def factory(*a, **k):
            h = ClientHarness(aio=aio, loop=loop, reconnection=True,
                              reconnection_attempts=1, reconnection_delay=1,
                              randomization_factor=0)
            holder['h'] = h
            if not aio:
                h.on_wait = on_wait
            return h.sio
        nconn = [0]

        def answer():
            h = holder.get('h')
            if h is not None and h.eio.state == 'connected' and \
                    ns not in h.sio.namespaces:
                nconn[0] += 1
                for f in wire.frames(wire.CONNECT, ns, None,
                                     {'sid': 'sid%d' % nconn[0]}):
                    h.deliver(f)
        call_ack = {'v': None}
        reader = wire.Reader()

        def ack_call():
            h = holder['h']
            try:
                pk = reader.read(h.take_msgs())
            except Exception:
                return
            for p in pk:
                trace.append(('sent', p['type'], p['nsp'], p['id'],
                              p['data']))
                if call_ack['v'] is not None and p['id'] is not None and \
                        p['type'] in (2, 5):
                    for f in wire.frames(wire.ACK, ns, p['id'],
                                         list(call_ack['v'])):
                        h.deliver(f)

        def on_wait(ev, timeout):
            h = holder['h']
            if ev is getattr(h.sio, '_reconnect_abort', None):
                return
            if ev is getattr(h.sio, '_connect_event', None):
                answer()
            else:
                ack_call()
        sc = (socketio.AsyncSimpleClient if aio else socketio.SimpleClient)()
        sc.client_class = factory
        if not aio:
            sc.connected_event = _NowEvent()
            sc.input_event = _NowEvent()

        def do(step, name, fn, during=None):
            labels['entry_points'].add(name)
            try:
                if aio:
                    task = loop.spawn(fn())
                    for _ in range(20):
                        loop.run_until_idle()
                        if task.done():
                            break
                        if during is not None:
                            during()
                            loop.run_until_idle()
                            if task.done():
                                break
                        if not loop.advance():
                            break
                    if not task.done():
                        task.cancel()
                        loop.run_until_idle()
                        trace.append(('raised', step, name, 'stuck'))
                        return
                    if task.exception() is not None:
                        raise task.exception()
                    r = task.result()
                else:
                    r = fn()
                trace.append(('result', step, name, r))
            except core.HarnessError:
                raise
            except Exception as e:
                if core.as_violation(e) is None and not isinstance(
                        e, (socketio.exceptions.SocketIOError,
                            RuntimeError)):
                    raise
                trace.append(('raised', step, name, type(e).__name__))
        n_ev = [0]
        do('init', 'connect', lambda: sc.connect('http://h', namespace=ns),
           during=answer)
        for step, op in enumerate(sc_case['ops']):
            k = op['op']
            h = holder.get('h')
            if k == 'connect':
                do(step, 'connect', lambda: sc.connect('http://h',
                                                       namespace=ns),
                   during=answer)
                if not aio and sc.client is not None:
                    pass
            elif k == 'ev':
                if h is not None and h.eio.state == 'connected':
                    labels['entry_points'].add('EVENT')
                    n_ev[0] += 1
                    for f in wire.frames(wire.EVENT, ns, None,
                                         [op['name'], n_ev[0]] +
                                         list(op['args'])):
                        h.deliver(f)
            elif k == 'recv':
                do(step, 'receive', lambda: sc.receive(timeout=1))
            elif k == 'emit':
                do(step, 'emit', lambda: sc.emit('ev', op['data']))
            elif k == 'call':
                call_ack['v'] = op['ack']
                do(step, 'call', lambda: sc.call('q', 1, timeout=1),
                   during=ack_call)
                call_ack['v'] = None
            elif k == 'lose_reconnect':
                if h is not None and h.eio.state == 'connected':
                    labels['entry_points'].add('loss')
                    labels['faults'] += 1
                    h.plan[:] = ['ok' if op['ok'] else 'fail']
                    h.lose()
                    if aio:
                        for _ in range(6):
                            loop.run_until_idle()
                            answer()
                            loop.run_until_idle()
                            if not [1 for n, t in h.tasks
                                    if n == '_handle_reconnect' and
                                    not t.done()]:
                                break
                            loop.advance()
                    else:
                        for b in h.reconnect_tasks():
                            b.run()
                        h.bg[:] = [b for b in h.bg if not b.done]
            elif k == 'sdisc':
                if h is not None and h.eio.state == 'connected':
                    labels['entry_points'].add('DISCONNECT')
                    labels['faults'] += 1
                    for f in wire.frames(wire.DISCONNECT, ns):
                        h.deliver(f)
            elif k == 'disconnect':
                do(step, 'disconnect', lambda: sc.disconnect())
            h = holder.get('h')
            if h is not None:
                try:
                    for p in reader.read(h.take_msgs()):
                        trace.append(('sent', p['type'], p['nsp'], p['id'],
                                      p['data']))
                except Exception as e:
                    trace.append(('sent-undecodable', type(e).__name__))
                while h.bg_errors:
                    trace.append(('bg-error', type(
                        h.bg_errors.pop(0)).__name__))
            trace.append(('state', step, bool(sc.connected), sc.sid,
                          list(sc.input_buffer)))
        labels['entry_points'] = len(labels['entry_points'])
        return trace, labels
    finally:
        if loop is not None:
            loop.shutdown()
