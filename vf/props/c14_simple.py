"""C14, pub/sub family (filled in below)."""
from hypothesis import strategies as st


def strategy(tier):
    return st.nothing()


def run(case, aio):
    raise NotImplementedError
