"""C19 SimpleClient: events are received once each, in arrival order."""
import itertools

from hypothesis import strategies as st

from .. import coop
from .. import core
from .. import wire
from ..case import strict_eq
from ..core import Violation
from ..eio_client import ClientHarness

PID = 'C19'
KNOWN = set()
KF_HANG = 'receive-hangs-after-final-disconnect'
EXHAUSTIVE = True
EXHAUSTIVE_SCOPE = ('threaded SimpleClient: every interleaving (at the '
                    "granularity of the client's event and buffer "
                    'operations) of a producer delivering 1 event and then '
                    'ending the connection with a consumer calling receive() '
                    'twice, all combinations of timeout None / finite; 2 '
                    'events with two finite-timeout receives; 1 event, loss '
                    'and failed reconnection with two receives (thorough: '
                    'also 2 events x 3 receives and a successful '
                    'reconnection, marked not exhaustive if capped)')
RULE = ('SimpleClient on the real Client on the harness engine, its two '
        'events and its buffer replaced by scheduler-aware look-alikes; '
        'actors on real threads under the cooperative scheduler: a producer '
        '(server events, loss of connection, successful / failed '
        'reconnection, final server disconnect), one consumer calling '
        'receive(timeout) repeatedly, optionally an emitter. Small shapes '
        'are enumerated by DFS over all schedules, larger ones sampled. '
        'AsyncSimpleClient on the deterministic loop: generated orders of '
        'stimuli (deliver, start receive, lose, reconnect, timer, server '
        'DISCONNECT packet, event + engine.io CLOSE in one payload, event + '
        'transport failure in one read, event arriving at the instant a '
        'time-out expires) injected '
        'at idle points or back to back, optionally followed by a second '
        'connect() on the same object once the first connection has ended '
        'for good (event, ordinary loss, emit() waiting the reconnection '
        'out, event). Oracle: returned values are a '
        'prefix of the arrival sequence; TimeoutError only while no arrived '
        'event is in the buffer; DisconnectedError only after the final '
        'disconnect with all earlier events returned; no receive() parked '
        'for ever while an event is available or after the connection ended '
        'for good; emit() hands exactly one frame to an engine connection or '
        'raises DisconnectedError. Non-trivial: an arrival between the '
        "consumer's emptiness test and its wait, or between its wake-up and "
        'its clear().'
        " Histories also end by the application's own disconnect() (connected, or during a reconnection: no further attempt may follow), and every history that has ended for good is probed with a fresh receive() and emit()."
        ' Application disconnects are also placed right behind the loss, before the reconnection effort has run; the stimulus reconnect_then_lose queues the failing read loop between the CONNECT reply handler of a reconnection attempt and the task waiting in connect().'
        ' Application disconnects during a reconnection can be followed by the server accepting the attempt that was in flight: the connection must not stay up.')
ASSUMPTIONS = [
    'one consumer (the class is documented for a single application thread)',
    'call() time-outs are not judged',
    'an event has arrived once it is in the buffer (also before the handler '
    'has signalled it)',
]
BUDGET = {'quick': 800, 'thorough': 40000}
FLOOR = {'quick': 100, 'thorough': 3000}


# --------------------------------------------------------------------------
# generation

def _prod_st(n):
    ev = st.fixed_dictionaries({'p': st.just('ev')})
    return st.lists(st.one_of(
        ev, ev, ev,
        st.just({'p': 'lose_reconnect', 'ok': True}),
        st.just({'p': 'lose_reconnect', 'ok': False})), max_size=n)


def strategy(tier):
    big = tier == 'thorough'
    sync = st.fixed_dictionaries({
        'aio': st.just(False),
        'producer': _prod_st(6 if big else 4),
        'final': st.booleans(),
        'consumer': st.lists(st.sampled_from([None, None, 1]), min_size=1,
                             max_size=5),
        'emitter': st.lists(st.just('emit'), max_size=2),
        'second': st.booleans(),
        'choices': st.lists(st.integers(0, 3), min_size=25, max_size=80)})
    stim = st.one_of(
        st.just('ev'), st.just('ev'), st.just('recv'), st.just('recv1'),
        st.just('tick'), st.just('lose'), st.just('reconnect_ok'),
        st.just('reconnect_fail'), st.just('emit'),
        # the server ends the namespace (DISCONNECT packet, dispatched like
        # any message); an event and an engine.io CLOSE in one payload; an
        # event that arrives at the very instant a receive() time-out expires
        st.just('sdisc'), st.just('ev_close'), st.just('ev_tick'),
        # an event and the failure of the transport within one read: the
        # failure is processed before the event's handler task
        st.just('ev_lose'),
        # a reconnection attempt whose CONNECT reply has been handled (the
        # namespace's connect handler has run) when the transport fails
        # again, before the task waiting in connect() has resumed
        st.just('reconnect_then_lose'))
    asy = st.fixed_dictionaries({
        'aio': st.just(True),
        'groups': st.lists(st.one_of(
            st.lists(stim, min_size=1, max_size=3),
            st.lists(stim, min_size=1, max_size=3),
            # a returning client that the server accepts, serves and ends
            # within one payload; a receive() parked across the loss
            st.sampled_from([['reconnect_ok', 'ev', 'sdisc'],
                             ['reconnect_ok', 'sdisc'],
                             ['reconnect_ok', 'ev', 'ev_close'],
                             ['lose', 'recv'], ['lose', 'recv1'],
                             ['recv1', 'ev_tick'], ['ev', 'sdisc'],
                             ['ev_close'], ['ev_lose', 'recv'],
                             ['ev_lose', 'recv1'], ['ev_lose'],
                             ['reconnect_then_lose', 'emit'],
                             ['lose', 'reconnect_then_lose', 'emit'],
                             ['reconnect_then_lose', 'recv1']])),
            min_size=2, max_size=14 if big else 9),
        'final': st.booleans(),
        # who ends the connection for good at the end of the history: the
        # server (or the inner client's shutdown()), or the application,
        # with the simple client's own disconnect() - whatever state the
        # connection is in at that moment
        'final_by': st.sampled_from(['server', 'server', 'app']),
        # (application disconnect during a reconnection: an attempt is in
        # flight, and the server accepts it afterwards)
        'late_accept': st.booleans(),
        # after the connection has ended for good the application calls
        # connect() again on the same simple client: nothing of the first
        # connection may change how the second one behaves
        'second': st.booleans()})
    # threaded, sequential: the application ends the connection itself,
    # connected or in the middle of a reconnection
    appd = st.fixed_dictionaries({
        'aio': st.booleans(), 'appdisc': st.just(True),
        'n_before': st.integers(0, 2), 'lost': st.booleans(),
        'received': st.integers(0, 2),
        # how far the reconnection effort has got when the application
        # disconnects: its task / thread has been started but has not run
        # yet, or it sits in its first back-off wait
        'early': st.booleans()})
    return st.one_of(sync, asy, asy, appd)


ENUM_TRUNCATED = False


def enumerate_sharded(tier, shard, nshards):
    global ENUM_TRUNCATED
    shapes = []
    for touts in itertools.product([None, 1], repeat=2):
        shapes.append({'aio': False, 'producer': [{'p': 'ev'}],
                       'final': True, 'consumer': list(touts),
                       'emitter': []})
    shapes.append({'aio': False, 'producer': [{'p': 'ev'}] * 2,
                   'final': False, 'consumer': [1, 1], 'emitter': []})
    shapes.append({'aio': False, 'producer': [
        {'p': 'ev'}, {'p': 'lose_reconnect', 'ok': False}],
        'final': False, 'consumer': [None, None], 'emitter': []})
    if tier == 'thorough':
        for touts in itertools.product([None, 1], repeat=3):
            shapes.append({'aio': False, 'producer': [{'p': 'ev'}] * 2,
                           'final': True, 'consumer': list(touts),
                           'emitter': []})
        shapes.append({'aio': False, 'producer': [
            {'p': 'ev'}, {'p': 'lose_reconnect', 'ok': True}, {'p': 'ev'}],
            'final': True, 'consumer': [None, None, None], 'emitter': []})
    for i, shape in enumerate(shapes):
        if i % nshards != shard:
            continue

        def run_one(choices, shape=shape):
            case = dict(shape, choices=choices)
            s, o = _execute_sync(case)
            case['choices'] = list(s.taken)
            try:
                r = _judge_sync(case, s, o)
            except Violation as v:
                r = v
            _CACHE.clear()
            _CACHE[_key(case)] = r
            run_one.case = case
            return s
        cap = 40000 if tier == 'quick' else 120000
        n = 0
        for s in coop.explore(run_one, max_schedules=cap):
            n += 1
            yield run_one.case
        if n >= cap:
            ENUM_TRUNCATED = True


_CACHE = {}


def _key(case):
    return repr((case.get('producer'), case.get('final'),
                 case.get('consumer'), case.get('emitter'),
                 case.get('choices')))


def _check_sync_appdisc(case):
    socketio = core.bootstrap()
    holder = {}

    def answer(*_):
        h = holder['h']
        if h.eio.state == 'connected' and '/ns' not in h.sio.namespaces:
            for f in wire.frames(wire.CONNECT, '/ns', None, {'sid': 'sid1'}):
                h.deliver(f)

    def factory(*a, **k):
        h = ClientHarness(aio=False, reconnection=True,
                          reconnection_attempts=2, reconnection_delay=1,
                          randomization_factor=0)
        holder['h'] = h
        h.on_wait = answer
        return h.sio
    sc = socketio.SimpleClient()
    sc.client_class = factory
    sc.connect('http://h', namespace='/ns')
    h = holder['h']
    h.on_wait = None
    labels = {'aio': False, 'application_disconnects': True,
              'nontrivial': bool(case['lost'])}
    for i in range(case['n_before']):
        for f in wire.frames(wire.EVENT, '/ns', None, ['e', i]):
            h.deliver(f)
    got = []
    for i in range(min(case['received'], case['n_before'])):
        got.append(sc.receive(timeout=0.01))
    if case['lost']:
        h.plan[:] = ['fail', 'fail']
        h.lose()
        labels['application_disconnects_during_reconnection'] = True
        n_att = len(h.attempts)
        fired = []
        if case.get('early'):
            # the effort's thread has been started, it has not run yet
            fired.append(1)
            sc.disconnect()
            labels['disconnect_before_the_effort_runs'] = True

        def on_wait(ev, timeout):
            # the effort's thread sits in its first back-off wait when the
            # application's thread calls disconnect()
            if ev is getattr(h.sio, '_reconnect_abort', None) and not fired:
                fired.append(1)
                sc.disconnect()
        h.on_wait = on_wait
        for b in list(h.bg):
            b.run()
        if not fired:
            raise core.HarnessError('no reconnection effort after the loss')
    else:
        n_att = len(h.attempts)
        sc.disconnect()
        for b in list(h.bg):
            b.run()
    if len(h.attempts) != n_att:
        raise Violation('reconnection-after-disconnect',
                        'the application called disconnect() on the simple '
                        'client; %d further connection attempt(s) were made'
                        % (len(h.attempts) - n_att))
    while len(got) < case['n_before']:
        try:
            got.append(sc.receive(timeout=0.01))
        except Exception as e:
            raise Violation('event-lost-or-reordered',
                            'received before the end but never returned: '
                            '%r after %r' % (e, got))
    if got != [['e', i] for i in range(case['n_before'])]:
        raise Violation('event-lost-or-reordered', repr(got))
    try:
        v = sc.receive(timeout=0.01)
        raise Violation('event-lost-or-reordered', 'invented %r' % (v,))
    except socketio.exceptions.DisconnectedError:
        pass
    except socketio.exceptions.TimeoutError:
        raise Violation('timeout-after-the-end',
                        'receive() after the application disconnected '
                        '(transport lost before: %s) raises TimeoutError, '
                        'not DisconnectedError' % case['lost'])
    if not sc.connected_event.is_set():
        raise Violation('emit-hangs-after-final-disconnect', '')
    try:
        sc.emit('x', 1)
        raise Violation('emit-after-the-end', 'emit() returned')
    except socketio.exceptions.DisconnectedError:
        pass
    return labels


def _check_async_appdisc(case):
    socketio = core.bootstrap()
    from ..detloop import DetLoop
    loop = DetLoop()
    try:
        holder = {}

        def factory(*a, **k):
            h = ClientHarness(aio=True, loop=loop, reconnection=True,
                              reconnection_attempts=2, reconnection_delay=1,
                              randomization_factor=0)
            holder['h'] = h
            return h.sio
        sc = socketio.AsyncSimpleClient()
        sc.client_class = factory
        t = loop.spawn(sc.connect('http://h', namespace='/ns'))
        loop.run_until_idle()
        h = holder['h']
        for f in wire.frames(wire.CONNECT, '/ns', None, {'sid': 'sid1'}):
            h.deliver(f)
        loop.run_until_idle()
        if not t.done() or t.exception():
            raise core.HarnessError('simple client did not connect: %r' % t)
        labels = {'aio': True, 'application_disconnects': True,
                  'nontrivial': bool(case['lost'])}
        for i in range(case['n_before']):
            for f in wire.frames(wire.EVENT, '/ns', None, ['e', i]):
                h.deliver(f)
        loop.run_until_idle()
        got = []

        def recv():
            rt = loop.spawn(sc.receive(timeout=1))
            loop.run_until_idle()
            for _ in range(3):
                if not rt.done():
                    loop.advance()
            if not rt.done():
                raise Violation(KF_HANG, 'receive(timeout=1) never returns')
            if rt.exception() is not None:
                raise rt.exception()
            return rt.result()
        for i in range(min(case['received'], case['n_before'])):
            got.append(recv())
        if case['lost']:
            h.plan[:] = ['fail', 'fail']
            labels['application_disconnects_during_reconnection'] = True
            if case.get('early'):
                async def tail():
                    await h.eio._trigger_event('disconnect',
                                               h.reason.TRANSPORT_ERROR,
                                               run_async=False)
                    await h.eio._reset()
                lt = loop.spawn(tail())
                for _ in range(50):
                    if lt.done() or h.sio._reconnect_task is not None:
                        break
                    loop.step()
                labels['disconnect_before_the_effort_runs'] = True
            else:
                h.lose()
                loop.run_until_idle()
        n_att = len(h.attempts)
        dt = loop.spawn(sc.disconnect())
        loop.run_until_idle()
        for _ in range(6):
            if not loop.advance():
                break
        if not dt.done():
            raise Violation('disconnect-failed', 'disconnect() of the '
                            'simple client never returns')
        if dt.exception() is not None:
            raise Violation('disconnect-failed', 'disconnect() of the simple '
                            'client raised %r' % (dt.exception(),))
        if len(h.attempts) != n_att:
            raise Violation('reconnection-after-disconnect',
                            'the application called disconnect() on the '
                            'simple client; %d further connection '
                            'attempt(s) were made'
                            % (len(h.attempts) - n_att))
        while len(got) < case['n_before']:
            try:
                got.append(recv())
            except Violation:
                raise
            except Exception as e:
                raise Violation('event-lost-or-reordered',
                                'received before the end but never '
                                'returned: %r after %r' % (e, got))
        if got != [['e', i] for i in range(case['n_before'])]:
            raise Violation('event-lost-or-reordered', repr(got))
        try:
            v = recv()
            raise Violation('event-lost-or-reordered', 'invented %r' % (v,))
        except socketio.exceptions.DisconnectedError:
            pass
        except socketio.exceptions.TimeoutError:
            raise Violation('timeout-after-the-end',
                            'receive() after the application disconnected '
                            '(transport lost before: %s) raises '
                            'TimeoutError, not DisconnectedError'
                            % case['lost'])
        et = loop.spawn(sc.emit('x', 1))
        loop.run_until_idle()
        if not et.done():
            raise Violation('emit-hangs-after-final-disconnect', '')
        if not isinstance(et.exception(),
                          socketio.exceptions.DisconnectedError):
            raise Violation('emit-after-the-end', repr(et.exception()))
        return labels
    finally:
        loop.shutdown()


def check_case(case):
    if case.get('appdisc'):
        if case['aio']:
            return _check_async_appdisc(case)
        return _check_sync_appdisc(case)
    if case['aio']:
        return _check_async(case)
    r = _CACHE.pop(_key(case), None)
    if r is not None:
        if isinstance(r, Violation):
            raise r
        return r
    s, o = _execute_sync(case)
    return _judge_sync(case, s, o)


# --------------------------------------------------------------------------
# threaded SimpleClient under the cooperative scheduler

def _execute_sync(case):
    socketio = core.bootstrap()
    holder = {}

    def answer(*_):
        h = holder['h']
        if h.eio.state == 'connected' and '/ns' not in h.sio.namespaces:
            holder['n'] = holder.get('n', 0) + 1
            for f in wire.frames(wire.CONNECT, '/ns', None,
                                 {'sid': 'sid%d' % holder['n']}):
                h.deliver(f)

    def factory(*a, **k):
        h = ClientHarness(aio=False, reconnection=True,
                          reconnection_attempts=1, reconnection_delay=1,
                          randomization_factor=0)
        holder['h'] = h
        h.on_wait = answer
        return h.sio
    sc = socketio.SimpleClient()
    sc.client_class = factory
    sc.connect('http://h', namespace='/ns')
    h = holder['h']
    h.take_outbox()
    sched = coop.Scheduler(case['choices'])
    ce = coop.CoopEvent(sched)
    ce.flag = sc.connected_event.is_set()
    sc.connected_event = ce
    sc.input_event = coop.CoopEvent(sched)
    arrivals = []

    class Buf(coop.CoopList):
        def append(self, x):
            coop.CoopList.append(self, x)
            arrivals.append(x)
            st_['arrived'] = len(arrivals)   # in the buffer = arrived
    buf = Buf()
    buf.sched = sched
    sc.input_buffer = buf
    st_ = {'arrived': 0, 'final': False, 'n_ev': 0, 'emit_frames': 0}
    results = []
    emit_results = []

    def on_wait(ev, timeout):
        if ev is getattr(h.sio, '_reconnect_abort', None):
            return      # the back-off elapses
        answer()
    h.on_wait = on_wait
    # the moment between the simple client's own connectivity check and the
    # underlying client's send is a scheduling point as well
    coop.wrap_yield(sched, h.sio, ['emit'], prefix='client.')

    def producer():
        for step in case['producer']:
            if st_['final']:
                break
            if step['p'] == 'ev':
                if h.eio.state != 'connected':
                    continue
                st_['n_ev'] += 1
                for f in wire.frames(wire.EVENT, '/ns', None,
                                     ['e', st_['n_ev']]):
                    h.deliver(f)
                st_['arrived'] = len(arrivals)
            else:
                if h.eio.state != 'connected':
                    continue
                h.plan[:] = ['ok' if step['ok'] else 'fail']
                h.lose()
                if not step['ok']:
                    st_['final'] = True   # the effort is going to give up
                for b in h.reconnect_tasks():
                    b.run()
                h.bg[:] = [b for b in h.bg if not b.done]
        if case['final'] and not st_['final']:
            st_['final'] = True
            if h.eio.state == 'connected':
                for f in wire.frames(wire.DISCONNECT, '/ns'):
                    h.deliver(f)

    def consumer():
        for tout in case['consumer']:
            try:
                v = sc.receive(timeout=tout)
                results.append(('ret', v, None))
            except socketio.exceptions.TimeoutError:
                results.append(('timeout', len(buf), st_['arrived'],
                                tout))
            except socketio.exceptions.DisconnectedError:
                results.append(('disconnected', len(buf), st_['final']))
                break

    def emitter():
        def sent():
            return len([1 for t, d in h.outbox if isinstance(d, str) and
                        d.startswith('2/ns,["x"')])
        for _ in case['emitter']:
            before = sent()
            try:
                sc.emit('x', 1)
                emit_results.append(('ok', sent() - before, h.eio.state))
            except socketio.exceptions.DisconnectedError:
                emit_results.append(('disconnected', sent() - before,
                                     st_['final']))
    actors = [sched.spawn('producer', producer),
              sched.spawn('consumer', consumer)]
    if case['emitter']:
        actors.append(sched.spawn('emitter', emitter))
    deadlock = None
    try:
        sched.run()
    except coop.Deadlock as e:
        deadlock = e
    second = None
    if case.get('second') and deadlock is None and st_['final'] and \
            all(a.done for a in actors) and not sc.connected:
        second = _second_life_sync(socketio, sc, holder, answer)
    # release parked threads so they do not linger: mark as daemon (they are)
    return sched, {'second': second, 'results': results, 'emit': emit_results,
                   'arrivals': arrivals, 'st': st_, 'deadlock': deadlock,
                   'buf': buf, 'actors': actors, 'h': h, 'sc': sc}


def _second_life_sync(socketio, sc, holder, answer):
    """Sequential: connect() again on the same object, an event, an
    ordinary loss with a successful reconnection, emit(), an event.  Returns
    None or (kind, detail) of what went wrong."""
    import threading
    sc.connected_event = threading.Event()
    sc.input_event = threading.Event()
    try:
        sc.connect('http://h', namespace='/ns')
    except Exception as e:
        return ('second-connect-failed', repr(e))
    h = holder['h']

    def on_wait(ev, timeout):
        if ev is getattr(h.sio, '_reconnect_abort', None):
            return
        answer()
    h.on_wait = on_wait

    def event(n):
        for f in wire.frames(wire.EVENT, '/ns', None, ['again', n]):
            h.deliver(f)

    def receive():
        if not sc.input_buffer and not sc.input_event.is_set():
            return ('second-connection-receive-hangs', 'no event signalled')
        try:
            v = sc.receive(timeout=1)
        except Exception as e:
            return ('second-connection-receive-raised', repr(e))
        return v
    event(1)
    v = receive()
    if v != ['again', 1]:
        return v if isinstance(v, tuple) else (
            'second-connection-event', repr(v))
    h.plan[:] = ['ok']
    h.lose()
    tasks = h.reconnect_tasks()
    if len(tasks) != 1:
        return ('second-connection-no-reconnection',
                '%d reconnection efforts after an ordinary loss'
                % len(tasks))
    tasks[0].run()
    h.bg[:] = [b for b in h.bg if not b.done]
    if not sc.connected_event.is_set():
        return ('second-connection-emit-hangs', 'the reconnection '
                'succeeded but the simple client still waits for it')
    try:
        sc.emit('x', 2)
    except Exception as e:
        return ('second-connection-emit-raised', repr(e))
    event(2)
    v = receive()
    if v != ['again', 2]:
        return v if isinstance(v, tuple) else (
            'second-connection-event', repr(v))
    return ('ok', '')


def _judge_sync(case, sched, o):
    labels = {'aio': False, 'nontrivial': False}
    if o.get('second') is not None:
        if o['second'][0] != 'ok':
            raise Violation(o['second'][0], o['second'][1])
        labels['second_connection'] = True
    what = 'schedule %r' % ([(a, l) for a, l, h in sched.trace],)
    for a in o['actors']:
        if a.exc is not None:
            raise Violation('actor-raised', '%s: %r [%s]' % (a.name, a.exc,
                                                            what))
    res = o['results']
    arrivals = o['arrivals']
    rets = [r[1] for r in res if r[0] == 'ret']
    if not all(strict_eq(a, b) for a, b in zip(rets, arrivals)) or \
            len(rets) > len(arrivals):
        kind = 'event-duplicated' if len(rets) > len(set(map(repr, rets))) \
            else 'event-lost-or-reordered'
        raise Violation(kind, 'returned %r, arrived %r [%s]'
                        % (rets, arrivals, what))
    n_ret = 0
    for r in res:
        if r[0] == 'ret':
            n_ret += 1
        elif r[0] == 'timeout':
            _, in_buf, arrived, tout = r
            if tout is None:
                raise Violation('timeout-without-timeout', what)
            if arrived > n_ret:
                raise Violation('timeout-while-event-available',
                                'TimeoutError with %d arrived events not '
                                'yet returned [%s]' % (arrived - n_ret,
                                                       what))
        else:
            _, in_buf, final = r
            if not final:
                raise Violation('disconnected-error-before-the-end', what)
            if in_buf:
                raise Violation('disconnected-error-with-events-pending',
                                what)
    if o['deadlock'] is not None:
        parked = [a for a in o['actors'] if not a.done]
        cons = [a for a in parked if a.name == 'consumer']
        if cons and len(o['buf']) > 0 and o['st']['arrived'] > n_ret:
            raise Violation('receive-parked-with-event-available',
                            '%s [%s]' % (o['deadlock'], what))
        if cons and o['st']['final']:
            if KF_HANG in KNOWN:
                labels['kf:' + KF_HANG] = True
            else:
                raise Violation(KF_HANG, 'receive() never returns although '
                                'the connection has ended for good [%s]'
                                % what)
        elif any(a.name == 'emitter' for a in parked) and o['st']['final']:
            raise Violation('emit-hangs-after-final-disconnect', what)
        elif parked and not o['st']['final']:
            pass      # waiting for events that never come: not judged
    for r in o['emit']:
        if r[0] == 'ok' and r[1] != 1:
            raise Violation('emit-frame-count', '%r [%s]' % (r, what))
        if r[0] == 'disconnected' and (r[1] != 0 or not r[2]):
            raise Violation('emit-disconnected-error', '%r [%s]'
                            % (r, what))
    # non-triviality: an arrival between the emptiness test and the wait, or
    # between the wake-up and clear()
    tr = [(a, l) for a, l, h in sched.trace]
    for i, (a, l) in enumerate(tr):
        if a == 'consumer' and l in ('list.bool', 'event.wait'):
            j = i + 1
            while j < len(tr) and tr[j][0] != 'consumer':
                if tr[j] == ('producer', 'list.append') or \
                        tr[j] == ('producer', 'event.set'):
                    labels['nontrivial'] = True
                j += 1
    labels['events'] = len(arrivals)
    return labels


# --------------------------------------------------------------------------
# AsyncSimpleClient on the deterministic loop

def _check_async(case):
    socketio = core.bootstrap()
    from ..detloop import DetLoop
    from engineio import packet as ep
    loop = DetLoop()
    try:
        holder = {}

        def factory(*a, **k):
            h = ClientHarness(aio=True, loop=loop, reconnection=True,
                              reconnection_attempts=1, reconnection_delay=1,
                              randomization_factor=0)
            holder['h'] = h
            return h.sio
        sc = socketio.AsyncSimpleClient()
        sc.client_class = factory
        nconn = [0]

        def answer():
            h = holder['h']
            if h.eio.state == 'connected' and '/ns' not in h.sio.namespaces:
                nconn[0] += 1
                for f in wire.frames(wire.CONNECT, '/ns', None,
                                     {'sid': 'sid%d' % nconn[0]}):
                    h.deliver(f)
        t = loop.spawn(sc.connect('http://h', namespace='/ns'))
        loop.run_until_idle()
        answer()
        loop.run_until_idle()
        if not t.done() or t.exception():
            raise core.HarnessError('simple client did not connect: %r' % t)
        h = holder['h']
        h.take_outbox()
        spin = {'n': 0, 'at': None}
        real_emit = h.sio.emit

        async def counted_emit(*a, **k):
            # an emit() of the simple client that retries without ever
            # yielding would block the loop (and this check) for ever
            now = (loop.time(), len(h.tasks))
            spin['n'] = spin['n'] + 1 if spin['at'] == now else 1
            spin['at'] = now
            if spin['n'] > 300:
                raise core.Abort('emit-spins-without-yielding',
                                 'emit() of the simple client has retried '
                                 '%d times without the loop making any '
                                 'progress' % spin['n'])
            return await real_emit(*a, **k)
        h.sio.emit = counted_emit
        arrivals = []
        orig_buf = sc.input_buffer

        class Buf(list):
            def append(self, x):
                list.append(self, x)
                arrivals.append(x)
        sc.input_buffer = Buf(orig_buf)
        final = [False]
        pending = []        # (task, timeout) of the outstanding receive
        returned = []
        n_ev = [0]
        labels = {'aio': True, 'nontrivial': False}

        async def recv_wrap(tout):
            # snapshot of the arrival count at the instant receive() ends
            try:
                return ('ret', await sc.receive(timeout=tout), len(arrivals))
            except Exception as e:
                return ('exc', e, len(arrivals))

        def harvest():
            while pending and pending[0][0].done():
                task, tout = pending.pop(0)
                kind, val, n_arrived = task.result()
                exc = val if kind == 'exc' else None
                if exc is None:
                    v = val
                    k = len(returned)
                    if k >= len(arrivals) or not strict_eq(v, arrivals[k]):
                        raise Violation('event-lost-or-reordered',
                                        'returned %r as #%d, arrived %r'
                                        % (v, k, arrivals))
                    returned.append(v)
                elif isinstance(exc, socketio.exceptions.TimeoutError):
                    if tout is None:
                        raise Violation('timeout-without-timeout', '')
                    if n_arrived > len(returned):
                        raise Violation('timeout-while-event-available',
                                        'arrived %d returned %d'
                                        % (n_arrived, len(returned)))
                elif isinstance(exc, socketio.exceptions.DisconnectedError):
                    if not final[0]:
                        raise Violation('disconnected-error-before-the-end',
                                        '')
                    if n_arrived > len(returned):
                        raise Violation(
                            'disconnected-error-with-events-pending', '')
                else:
                    raise Violation('receive-raised', repr(exc))
        def update_final():
            if h.eio.state != 'connected' and any(
                    n == '_handle_reconnect' and tk.done()
                    for n, tk in h.tasks) and not any(
                    n == '_handle_reconnect' and not tk.done()
                    for n, tk in h.tasks):
                final[0] = True     # the reconnection effort gave up
        emits = []
        for group in case['groups']:
            spawned = []
            answered = False
            gone = False    # the transport fails within this group
            for s in group:
                if s in ('ev', 'sdisc', 'ev_close', 'ev_tick',
                         'ev_lose') and (final[0] or gone):
                    continue
                if s == 'ev_lose':
                    if h.eio.state == 'connected' and \
                            '/ns' in h.sio.namespaces:
                        n_ev[0] += 1
                        fr = wire.frames(wire.EVENT, '/ns', None,
                                         ['e', n_ev[0]])
                        h.plan[:] = ['fail']

                        async def payload(fr=fr):
                            for f in fr:
                                await h.eio._receive_packet(
                                    ep.Packet(ep.MESSAGE, f))
                            await h.eio._trigger_event(
                                'disconnect', h.reason.TRANSPORT_ERROR,
                                run_async=False)
                            await h.eio._reset()
                        spawned.append(loop.spawn(payload()))
                        labels['event_and_loss_in_one_read'] = True
                        labels['nontrivial'] = True
                        gone = True
                    continue
                if s == 'sdisc':
                    if h.eio.state == 'connected' and (
                            answered or '/ns' in h.sio.namespaces):
                        for f in wire.frames(wire.DISCONNECT, '/ns'):
                            spawned.append(loop.spawn(h.eio._receive_packet(
                                ep.Packet(ep.MESSAGE, f))))
                        final[0] = True
                        labels['server_disconnect_packet'] = True
                        if pending:
                            labels['nontrivial'] = True
                elif s == 'ev_close':
                    if h.eio.state == 'connected' and (
                            answered or '/ns' in h.sio.namespaces):
                        n_ev[0] += 1
                        fr = wire.frames(wire.EVENT, '/ns', None,
                                         ['e', n_ev[0]])

                        async def payload(fr=fr):
                            for f in fr:
                                await h.eio._receive_packet(
                                    ep.Packet(ep.MESSAGE, f))
                            await h.eio._receive_packet(ep.Packet(ep.CLOSE))
                        spawned.append(loop.spawn(payload()))
                        final[0] = True
                        labels['event_and_close_in_one_payload'] = True
                        labels['nontrivial'] = True
                elif s == 'ev_tick':
                    if h.eio.state == 'connected' and \
                            '/ns' in h.sio.namespaces:
                        n_ev[0] += 1
                        for f in wire.frames(wire.EVENT, '/ns', None,
                                             ['e', n_ev[0]]):
                            spawned.append(loop.spawn(h.eio._receive_packet(
                                ep.Packet(ep.MESSAGE, f))))
                        if pending and pending[0][1] is not None:
                            labels['arrival_at_timeout_expiry'] = True
                            labels['nontrivial'] = True
                        loop.advance()
                elif s == 'ev':
                    if h.eio.state == 'connected':
                        n_ev[0] += 1
                        for f in wire.frames(wire.EVENT, '/ns', None,
                                             ['e', n_ev[0]]):
                            spawned.append(loop.spawn(h.eio._receive_packet(
                                ep.Packet(ep.MESSAGE, f))))
                        if pending:
                            labels['nontrivial'] = True
                elif s in ('recv', 'recv1'):
                    if not pending:
                        tout = None if s == 'recv' else 1
                        pending.append((loop.spawn(recv_wrap(tout)), tout))
                elif s == 'tick':
                    loop.run_until_idle()
                    live = [tk for n, tk in h.tasks
                            if n == '_handle_reconnect' and not tk.done()]
                    if live and h.plan[:1] == ['fail']:
                        final[0] = True     # this attempt will fail
                    loop.advance()
                elif s == 'lose':
                    if h.eio.state == 'connected':
                        loop.run_until_idle()
                        h.plan[:] = ['fail']
                        h.lose()
                elif s == 'reconnect_then_lose':
                    live = [tk for n, tk in h.tasks
                            if n == '_handle_reconnect' and not tk.done()]
                    if live and not final[0]:
                        h.plan[:] = ['ok']
                        loop.run_until_idle()
                        loop.advance()
                        if h.eio.state == 'connected' and \
                                '/ns' not in h.sio.namespaces:
                            nconn[0] += 1
                            for f in wire.frames(wire.CONNECT, '/ns', None,
                                                 {'sid': 'sid%d' % nconn[0]}):
                                loop.spawn(h.eio._receive_packet(ep.Packet(
                                    ep.MESSAGE, f)))
                            # the packet is read (its handler task is now
                            # queued); the read loop, which is about to fail,
                            # is queued right behind it - and so ahead of the
                            # task in connect(), which the handler will wake
                            loop.step()
                            h.plan[:] = ['fail']

                            async def tail():
                                if '/ns' in h.sio.namespaces and \
                                        not h.sio.connected:
                                    labels['loss_right_behind_the_'
                                           'reconnection'] = True
                                    labels['nontrivial'] = True
                                await h.eio._trigger_event(
                                    'disconnect', h.reason.TRANSPORT_ERROR,
                                    run_async=False)
                                await h.eio._reset()
                            spawned.append(loop.spawn(tail()))
                elif s in ('reconnect_ok', 'reconnect_fail'):
                    live = [tk for n, tk in h.tasks
                            if n == '_handle_reconnect' and not tk.done()]
                    if live:
                        h.plan[:] = ['ok' if s == 'reconnect_ok' else 'fail']
                        loop.run_until_idle()
                        loop.advance()
                        # the server's CONNECT answer is dispatched as its
                        # own task, so that stimuli that follow in this group
                        # (an event right behind it) are processed back to
                        # back, before the application task runs again
                        if h.eio.state == 'connected' and \
                                '/ns' not in h.sio.namespaces:
                            nconn[0] += 1
                            answered = True
                            for f in wire.frames(wire.CONNECT, '/ns', None,
                                                 {'sid': 'sid%d' % nconn[0]}):
                                spawned.append(loop.spawn(
                                    h.eio._receive_packet(ep.Packet(
                                        ep.MESSAGE, f))))
                        if s == 'reconnect_fail':
                            loop.run_until_idle()
                            update_final()
                elif s == 'emit':
                    before = len(h.outbox)
                    emits.append((loop.spawn(sc.emit('x', 1)), before))
            loop.run_until_idle()
            update_final()
            harvest()
        if case['final'] and not final[0]:
            live = [tk for n, tk in h.tasks
                    if n == '_handle_reconnect' and not tk.done()]
            if case.get('final_by') == 'app' and sc.connected:
                labels['application_disconnects'] = True
                if live:
                    labels['application_disconnects_during_reconnection'] \
                        = True
                    labels['nontrivial'] = True
                in_flight = False
                if live and case.get('late_accept') and \
                        h.eio.state != 'connected':
                    # the next attempt of the effort starts (its CONNECT is
                    # on its way) before the application disconnects; the
                    # server's acceptance arrives afterwards
                    h.plan[:] = ['ok']
                    loop.run_until_idle()
                    loop.advance()
                    in_flight = h.eio.state == 'connected' and \
                        '/ns' not in h.sio.namespaces
                n_att = len(h.attempts)
                dt = loop.spawn(sc.disconnect())
                loop.run_until_idle()
                if in_flight and h.eio.state == 'connected' and \
                        '/ns' not in h.sio.namespaces:
                    nconn[0] += 1
                    for f in wire.frames(wire.CONNECT, '/ns', None,
                                         {'sid': 'sid%d' % nconn[0]}):
                        h.deliver(f)
                    loop.run_until_idle()
                    labels['accepted_after_the_application_disconnected'] = \
                        True
                for _ in range(6):
                    # (an attempt that is in flight is waited for)
                    if dt.done() or not loop.advance():
                        break
                if not dt.done() or dt.exception() is not None:
                    raise Violation('disconnect-failed', repr(dt))
                if h.eio.state == 'connected':
                    raise Violation('connection-left-up-after-disconnect',
                                    'disconnect() of the simple client has '
                                    'returned; the transport is connected, '
                                    'namespaces %r' % (dict(
                                        h.sio.namespaces),))
                for _ in range(4):
                    if not loop.advance():
                        break
                if len(h.attempts) != n_att:
                    raise Violation('reconnection-after-disconnect',
                                    'the application called disconnect() on '
                                    'the simple client; %d further '
                                    'connection attempt(s) were made'
                                    % (len(h.attempts) - n_att))
            elif live:
                loop.run(sc.client.shutdown())
            elif h.eio.state == 'connected':
                for f in wire.frames(wire.DISCONNECT, '/ns'):
                    h.deliver(f)
            final[0] = True
            loop.run_until_idle()
            harvest()
        # finite time-outs fire
        for _ in range(6):
            live = [tk for n, tk in h.tasks
                    if n == '_handle_reconnect' and not tk.done()]
            if pending and pending[0][1] is not None or \
                    live and final[0] and sc.connected:
                # (a reconnection effort that the end of the connection has
                # overtaken, and that has not told the application yet, is
                # given the time to notice)
                if live and h.plan[:1] == ['fail']:
                    final[0] = True     # the pending attempt will fail
                loop.advance()
                update_final()
                harvest()
        if pending:
            task, tout = pending[0]
            if len(arrivals) > len(returned):
                raise Violation('receive-parked-with-event-available',
                                'arrived %d returned %d'
                                % (len(arrivals), len(returned)))
            if final[0] and tout is None:
                if KF_HANG in KNOWN:
                    labels['kf:' + KF_HANG] = True
                else:
                    raise Violation(KF_HANG, 'AsyncSimpleClient.receive() '
                                    'never returns although the connection '
                                    'has ended for good')
        for task, before in emits:
            if task.done():
                exc = task.exception()
                if isinstance(exc, core.Abort):
                    raise Violation(exc.kind, str(exc))
                if exc is not None and not isinstance(
                        exc, socketio.exceptions.DisconnectedError):
                    raise Violation('emit-raised', repr(exc))
                if isinstance(exc, socketio.exceptions.DisconnectedError) \
                        and not final[0]:
                    raise Violation('emit-disconnected-error', '')
            elif final[0]:
                raise Violation('emit-hangs-after-final-disconnect', '')
        if final[0] and not pending and not sc.connected:
            # the connection has ended for good: what was received before
            # that is still returned, then receive() and emit() say so
            for _ in range(len(arrivals) - len(returned) + 1):
                pending.append((loop.spawn(recv_wrap(1)), 1))
                loop.run_until_idle()
                for _ in range(3):
                    if pending and not pending[0][0].done():
                        loop.advance()
                if not pending[0][0].done():
                    raise Violation('receive-parked-with-event-available'
                                    if len(arrivals) > len(returned)
                                    else KF_HANG, 'receive(timeout=1) after '
                                    'the end never returns')
                kind, val, _n = pending[0][0].result()
                if kind == 'exc' and isinstance(
                        val, socketio.exceptions.TimeoutError) and \
                        len(arrivals) == len(returned):
                    raise Violation('timeout-after-the-end',
                                    'receive() after the connection has '
                                    'ended for good (application '
                                    'disconnect: %s) raises TimeoutError, '
                                    'not DisconnectedError'
                                    % bool(labels.get(
                                        'application_disconnects')))
                harvest()
            if len(returned) != len(arrivals):
                raise Violation('event-lost-or-reordered',
                                'received before the end but never '
                                'returned: %r of %r' % (returned, arrivals))
            et = loop.spawn(sc.emit('x', 1))
            loop.run_until_idle()
            if not et.done():
                raise Violation('emit-hangs-after-final-disconnect', '')
            if not isinstance(et.exception(),
                              socketio.exceptions.DisconnectedError):
                raise Violation('emit-after-the-end', repr(et.exception()))
            labels['probed_after_the_end'] = True
        labels['events'] = len(arrivals)
        if case.get('second') and final[0] and not pending and \
                not sc.connected:
            _second_life(socketio, loop, sc, holder, wire, ep, labels)
        return labels
    finally:
        loop.shutdown()


def _second_life(socketio, loop, sc, holder, wire, ep, labels):
    def run_for(task, what, ticks=6):
        for _ in range(ticks):
            loop.run_until_idle()
            if task.done():
                break
            if not loop.advance():
                break
        loop.run_until_idle()
        if not task.done():
            task.cancel()
            loop.run_until_idle()
            raise Violation('second-connection-' + what + '-hangs', '')
        return task.result()

    def accept():
        h = holder['h']
        if h.eio.state == 'connected' and '/ns' not in h.sio.namespaces:
            for f in wire.frames(wire.CONNECT, '/ns', None, {'sid': 'again'}):
                h.deliver(f)
    t = loop.spawn(sc.connect('http://h', namespace='/ns'))
    loop.run_until_idle()
    accept()
    loop.run_until_idle()
    if not t.done() or t.exception() is not None:
        raise Violation('second-connect-failed', repr(t))
    h = holder['h']

    def event(n):
        for f in wire.frames(wire.EVENT, '/ns', None, ['again', n]):
            h.deliver(f)
    event(1)
    got = run_for(loop.spawn(sc.receive(timeout=5)), 'receive')
    if got != ['again', 1]:
        raise Violation('second-connection-event', repr(got))
    # an ordinary transient loss: the reconnection is waited out
    h.plan[:] = ['ok']
    h.lose()
    loop.run_until_idle()
    em = loop.spawn(sc.emit('x', 2))
    for _ in range(6):
        loop.run_until_idle()
        accept()
        if em.done():
            break
        if not loop.advance():
            break
    accept()
    loop.run_until_idle()
    if not em.done():
        em.cancel()
        loop.run_until_idle()
        raise Violation('second-connection-emit-hangs', 'emit() during the '
                        'reconnection of the second connection never '
                        'returns (engine state %r)' % h.eio.state)
    if em.exception() is not None:
        raise Violation('second-connection-emit-raised',
                        repr(em.exception()))
    event(2)
    got = run_for(loop.spawn(sc.receive(timeout=5)), 'receive')
    if got != ['again', 2]:
        raise Violation('second-connection-event', repr(got))
    labels['second_connection'] = True
    labels['nontrivial'] = True


def classify(case, v):
    return v.kind
