"""C18 Admin instrumentation: gated by credentials, invisible to the
application."""
import copy

from hypothesis import strategies as st

from .. import scenario
from .. import strategies as S
from .. import wire
from ..case import strict_eq
from ..core import Violation
from ..world import World

PID = 'C18'
KF_PENDING = 'pending-admin-receives-traffic'
KNOWN = set()
RULE = ('Three generated parts. gate: auth configured as a non-empty dict of '
        'string credentials, a non-empty list of such dicts, a sync / async '
        'predicate (total, returning bools or truthy / falsy values, or '
        'raising on payloads of a shape it does not expect), or False; '
        'modes x read_only; an asynchronous predicate that is still '
        'deciding while application traffic goes on and the candidate '
        'already sends admin commands; admin CONNECT with payload '
        'absent, None, non-dicts, exact match, key permutations, '
        'sub/supersets, type-confused and nested variants, other list '
        'members: accepted iff the documented rule says so, a refused '
        'candidate gains no membership and receives nothing afterwards '
        'whatever happens on the server. readonly: an authenticated admin '
        'sends every admin command (emit, join, leave, _disconnect, unknown) '
        "with generated targets: in read-only mode application clients' "
        'queues, rooms and connection state are unchanged. transparency: the '
        'C14 server scenarios are run on a plain and on an instrumented '
        'server (both modes, with and without an admin connected, both '
        "servers): the application clients' normalised traces must be "
        'identical. Non-trivial: a near-miss payload (superset, permutation, '
        'type confusion), or a read-only command with a live target, or a '
        'transparency scenario with room changes and a disconnect while an '
        'admin listens. A fourth part (asyncio) runs the real instrumented '
        '_send_ping of an application client on the virtual-time loop while '
        'another connection creates / empties a namespace after 0-6 loop '
        'iterations: the PING must be sent as without instrumentation.'
        ' The gate part can instrument another server of the same process first, with credentials of its own, which are then presented to the judged server.'
        ' A fifth part (asyncio) starts two or three application calls back to back as tasks (emit to a room / broadcast, then an emit, a join or a leave) on a plain server and on an instrumented one with an admin connected: the application clients must receive the same packets in the same order.')
ASSUMPTIONS = [
    'configured credentials are string-valued; empty dict/list credentials '
    'are outside the domain; a payload that makes the predicate raise does '
    'not satisfy it (how the attempt is turned down is then not judged, '
    'only that it is); coroutine predicates only with AsyncServer',
    'traffic a candidate receives about its own provisional sid before the '
    'CONNECT_ERROR is an observation, not judged; reports about other '
    'clients that it receives while its verdict is pending are judged '
    '(known finding)',
    'statistics tasks are collected and never run; engine.io Socket class '
    'attributes patched by instrument() are restored after every case',
    'transparency scenarios exclude clients emitting events literally named '
    'connect / disconnect (outside the C04 domain as well)',
]
BUDGET = {'quick': 4000, 'thorough': 64000}
FLOOR = {'quick': 150, 'thorough': 4000}

CREDS = {'username': 'admin', 'password': 'secret'}
CREDS2 = {'username': 'bob', 'password': '1'}
# the credentials of another instrumented server of the same process
DECOY = {'username': 'ops', 'password': 'elsewhere'}


def payload_variants():
    return st.one_of(
        st.sampled_from([
            '<absent>', None, {}, [], 'admin', True, ['admin', 'secret'],
            dict(CREDS), {'password': 'secret', 'username': 'admin'},
            {'username': 'admin'}, {'password': 'secret'},
            dict(CREDS, extra='x'), {'username': 'admin', 'password': 'x'},
            {'username': 'admin', 'password': ['secret']},
            {'username': ['admin'], 'password': 'secret'},
            {'username': {'$ne': ''}, 'password': {'$ne': ''}},
            {'username': 'admin', 'password': None},
            {'username': 'admin', 'password': True},
            dict(CREDS2), {'username': 'bob', 'password': 1},
            {'username': 'Admin', 'password': 'secret'},
            {'username': 'admin ', 'password': 'secret'},
            [dict(CREDS)], {'auth': dict(CREDS)},
        ]),
        st.dictionaries(st.sampled_from(['username', 'password', 'x']),
                        st.one_of(st.sampled_from(['admin', 'secret', 'bob',
                                                   '1', 1, None, True]),
                                  st.text(max_size=3)), max_size=3))


def strategy(tier):
    gate = st.fixed_dictionaries({
        'part': st.just('gate'), 'aio': st.booleans(),
        'auth': st.sampled_from(['dict', 'list', 'pred', 'apred', 'false',
                                 'tpred', 'tapred', 'rpred', 'rapred',
                                 'opred', 'wpred', 'spred']),
        'mode': st.sampled_from(['development', 'production']),
        'read_only': st.booleans(),
        # what the candidate presents while a slow predicate is deciding
        'slow_payload': st.sampled_from(['wrong', 'absent', 'empty']),
        # another server of the same process was instrumented earlier, with
        # credentials of its own (a dict, or inside a list): they are
        # presented to the judged server
        'prior': st.sampled_from([None, None, 'dict', 'list']),
        'payloads': st.lists(payload_variants(), min_size=1, max_size=4)})
    cmd = st.one_of(
        st.fixed_dictionaries({'ev': st.just('emit'),
                               'ns': st.sampled_from(['/', '/x', '/zzz']),
                               'filter': st.sampled_from([None, 'r1',
                                                          '§S0§', '§S1§']),
                               'event': st.sampled_from(['a', 'ev', 'x']),
                               'data': st.lists(S.leaves_st(
                                   with_bytes=False), max_size=2)}),
        st.fixed_dictionaries({'ev': st.sampled_from(['join', 'leave']),
                               'ns': st.sampled_from(['/', '/x']),
                               'room': st.sampled_from(['r1', 'r9']),
                               'filter': st.sampled_from([None, 'r1',
                                                          '§S0§'])}),
        st.fixed_dictionaries({'ev': st.just('_disconnect'),
                               'ns': st.sampled_from(['/', '/x']),
                               'close': st.booleans(),
                               'filter': st.sampled_from([None, 'r1',
                                                          '§S0§'])}),
        st.fixed_dictionaries({'ev': st.sampled_from(['zz', 'disconnect_',
                                                      'emit_']),
                               'args': st.lists(S.leaves_st(
                                   with_bytes=False), max_size=2)}))
    ro = st.fixed_dictionaries({
        'part': st.just('readonly'), 'aio': st.booleans(),
        'mode': st.sampled_from(['development', 'development',
                                 'production']),
        'read_only': st.sampled_from([True, True, False]),
        'cmds': st.lists(cmd, min_size=1, max_size=6)})

    def strip(sc):
        sc = dict(sc)
        sc['ops'] = [o for o in sc['ops'] if not (
            o['op'] == 'raw' and 'connect' in o['text'])]
        return sc
    tr = st.fixed_dictionaries({
        'part': st.just('transparency'), 'aio': st.booleans(),
        'mode': st.sampled_from(['development', 'production']),
        'read_only': st.booleans(), 'admin': st.booleans(),
        # when the admin connects (None: before any application client) and
        # leaves again (None: never)
        'admin_at': st.one_of(st.none(), st.integers(0, 12)),
        'admin_until': st.one_of(st.none(), st.integers(1, 20)),
        'coro': st.booleans(),
        'sc': scenario.server_scenario_st(tier).map(strip)})
    # the heartbeat of an application client (asyncio: the instrumented
    # server reports the client to the admin namespace before each ping)
    # while other connections come and go
    hb = st.fixed_dictionaries({
        'part': st.just('heartbeat'),
        'admin': st.booleans(),
        'mode': st.sampled_from(['development', 'development',
                                 'production']),
        'meanwhile': st.sampled_from(['new_namespace', 'last_leaves',
                                      'none']),
        'after_steps': st.integers(0, 6)})
    # asyncio: two application operations started back to back (two tasks),
    # with an admin watching: the application clients receive what they
    # receive from the same two tasks on a plain server
    cc = st.fixed_dictionaries({
        'part': st.just('concurrent'),
        'mode': st.sampled_from(['development', 'development',
                                 'production']),
        'members': st.integers(1, 3),
        'first': st.sampled_from(['room', 'broadcast']),
        'second': st.sampled_from(['to_member', 'join', 'to_outsider',
                                   'leave']),
        'third': st.booleans()})
    return st.one_of(gate, ro, tr, tr, hb, cc)


class _SocketPatchGuard:
    """instrument() patches engine.io Socket *class* attributes; restore."""

    def __enter__(self):
        from engineio import socket as s1, async_socket as s2
        self.saved = []
        for cls in (s1.Socket, s2.AsyncSocket):
            self.saved.append((cls, dict(cls.__dict__)))
        return self

    def __exit__(self, *a):
        for cls, d in self.saved:
            for k in list(cls.__dict__):
                if k not in d:
                    delattr(cls, k)
                elif cls.__dict__[k] is not d[k]:
                    setattr(cls, k, d[k])


def check_case(case):
    with _SocketPatchGuard():
        if case['part'] == 'gate':
            return _gate(case)
        if case['part'] == 'readonly':
            return _readonly(case)
        if case['part'] == 'heartbeat':
            return _heartbeat(case)
        if case['part'] == 'concurrent':
            return _concurrent(case)
        return _transparency(case)


def _pred(p):
    return isinstance(p, dict) and p.get('username') == 'admin' and \
        isinstance(p.get('password'), str) and p['password'].startswith('s')


def _tpred(p):
    """A predicate in truthiness style: its verdict is a falsy or truthy
    value, not necessarily a bool (None, '', 0, a token string...)."""
    if not isinstance(p, dict):
        return None
    return p.get('username') == 'admin' and p.get('password')


def _rpred(p):
    """A predicate as an application writes it for the payload it expects:
    any other shape makes it raise (KeyError, TypeError)."""
    return p['username'] == 'admin' and p['password'] == 'secret'


def _rpred_oracle(p):
    try:
        return bool(_rpred(p))
    except Exception:
        return False        # does not satisfy the predicate


def _mk_auth(kind, aio):
    if kind == 'spred':
        kind = 'apred'      # (the gate suspends it, see _gate)
    if kind == 'opred' and aio:
        # an asynchronous predicate that is not a plain coroutine function:
        # an object with an async __call__
        class Checker:
            async def __call__(self, p):
                return _pred(p)
        return Checker(), _pred
    if kind == 'wpred' and aio:
        # ... an async function behind an ordinary wrapper
        async def inner(p):
            return _pred(p)
        return (lambda p: inner(p)), _pred
    if kind in ('rpred', 'rapred'):
        if kind == 'rapred' and aio:
            async def arp(p):
                return _rpred(p)
            return arp, _rpred_oracle
        return _rpred, _rpred_oracle
    if kind in ('tpred', 'tapred'):
        if kind == 'tapred' and aio:
            async def atp(p):
                return _tpred(p)
            return atp, lambda p: bool(_tpred(p))
        return _tpred, lambda p: bool(_tpred(p))
    if kind == 'dict':
        return dict(CREDS), lambda p: strict_eq(p, CREDS)
    if kind == 'list':
        return [dict(CREDS), dict(CREDS2)], \
            lambda p: strict_eq(p, CREDS) or strict_eq(p, CREDS2)
    if kind == 'false':
        return False, lambda p: True
    if kind == 'apred' and aio:
        async def ap(p):
            return _pred(p)
        return ap, _pred
    return _pred, _pred


def _app_server(aio, **kw):
    w = World(aio=aio, namespaces=['/', '/x'], **kw)
    log = []
    for ns in ('/', '/x'):
        w.sio.on('connect', lambda sid, environ, auth=None: None,
                 namespace=ns)
        w.sio.on('disconnect', lambda sid, reason: log.append(
            ('disconnect', sid)), namespace=ns)
        w.sio.on('a', lambda sid, *a: log.append(('a', sid, a)),
                 namespace=ns)
    return w, log


def _concurrent_run(case, instrumented):
    w, log = _app_server(True)
    try:
        if instrumented:
            w.sio.instrument(auth=False, mode=case['mode'])
            ta = w.open()
            if w.connect(ta, '/admin')[0] is None:
                raise Violation('admin-refused-with-auth-disabled', '')
        sio = w.sio
        cl = []
        for i in range(4):
            t = w.open()
            ci, _ = w.connect(t, '/')
            cl.append(w.clients[ci])
        for c in cl[:case['members']]:
            w.do(sio.enter_room(c['sid'], 'lobby', namespace='/'))
        outsider = cl[3]
        w.h.settle()
        w.recv_all()
        loop = w.h.loop
        tasks = [loop.spawn(sio.emit(
            'first', 1, namespace='/',
            room='lobby' if case['first'] == 'room' else None))]
        if case['second'] == 'to_member':
            tasks.append(loop.spawn(sio.emit('second', 2, namespace='/',
                                             to=cl[0]['sid'])))
        elif case['second'] == 'to_outsider':
            tasks.append(loop.spawn(sio.emit('second', 2, namespace='/',
                                             to=outsider['sid'])))
        elif case['second'] == 'join':
            tasks.append(loop.spawn(sio.enter_room(outsider['sid'], 'lobby',
                                                   namespace='/')))
        else:
            tasks.append(loop.spawn(sio.leave_room(cl[0]['sid'], 'lobby',
                                                   namespace='/')))
        if case['third']:
            tasks.append(loop.spawn(sio.emit('third', 3, namespace='/')))
        loop.run_until_idle()
        for tk in tasks:
            if not tk.done() or tk.exception() is not None:
                raise Violation('application-call-failed', repr(tk))
        out = []
        for c in cl:
            out.append([(p['type'], p['nsp'], p['data'])
                        for p in w.recv(c['t'])])
        return out
    finally:
        w.close()


def _concurrent(case):
    plain = _concurrent_run(case, False)
    inst = _concurrent_run(case, True)
    if plain != inst:
        raise Violation('transparency-concurrent',
                        'two application calls started back to back (%s, '
                        'then %s%s; %d lobby members): the application '
                        'clients received %r on the plain server and %r on '
                        'the instrumented one with an admin connected'
                        % (case['first'], case['second'],
                           ', then a broadcast' if case['third'] else '',
                           case['members'], plain, inst))
    return {'part': 'concurrent', 'aio': True, 'mode': case['mode'],
            'nontrivial': True, 'concurrent_' + case['second']: True}


def _heartbeat(case):
    w, log = _app_server(True)
    try:
        w.sio.instrument(auth=False, mode=case['mode'])
        labels = {'part': 'heartbeat', 'aio': True, 'mode': case['mode'],
                  'admin': case['admin'], 'nontrivial': False}
        if case['admin']:
            ta = w.open()
            if w.connect(ta, '/admin')[0] is None:
                raise Violation('admin-refused-with-auth-disabled', '')
        tx = w.open()
        w.connect(tx, '/')
        ty = w.open()
        if case['meanwhile'] == 'last_leaves':
            w.connect(ty, '/x')
        w.h.settle()
        w.recv_all()
        loop = w.h.loop
        P = w.h.eio_packet
        sx = w.h.eio.sockets[w.t[tx]]
        sy = w.h.eio.sockets[w.t[ty]]
        w.h.drain(w.t[tx])
        task = loop.spawn(sx._send_ping())
        for _ in range(case['after_steps']):
            loop.step()
        other = None
        if case['meanwhile'] == 'new_namespace':
            other = loop.spawn(sy.receive(P.Packet(P.MESSAGE, '0/x,')))
        elif case['meanwhile'] == 'last_leaves':
            other = loop.spawn(sy.receive(P.Packet(P.MESSAGE, '1/x,')))
        loop.run_until_idle()
        for _ in range(3):
            if task.done():
                break
            loop.advance()
        pings = [t for t, d in w.h.drain(w.t[tx]) if t == P.PING]
        if not task.done() or task.exception() is not None or \
                len(pings) != 1:
            raise Violation('heartbeat-lost',
                            'the ping of an application client (admin '
                            'connected: %s, meanwhile: %s after %d loop '
                            'iterations) ended with %r and %d PING packets; '
                            'without instrumentation it is sent'
                            % (case['admin'], case['meanwhile'],
                               case['after_steps'],
                               task.exception() if task.done() else
                               'no result', len(pings)))
        if other is not None and (not other.done() or
                                  other.exception() is not None):
            raise Violation('heartbeat-neighbour-failed', repr(other))
        labels['nontrivial'] = case['meanwhile'] != 'none'
        labels['heartbeat_' + case['meanwhile']] = True
        return labels
    finally:
        w.close()


def _gate(case):
    w0 = None
    if case.get('prior'):
        w0, _log0 = _app_server(case['aio'])
        w0.sio.instrument(auth=dict(DECOY) if case['prior'] == 'dict'
                          else [dict(CREDS2), dict(DECOY)],
                          mode=case['mode'], read_only=case['read_only'])
    try:
        return _gate_judged(case)
    finally:
        if w0 is not None:
            w0.close()


def _gate_judged(case):
    aio = case['aio']
    w, log = _app_server(aio)
    try:
        auth, oracle = _mk_auth(case['auth'], aio)
        gate_box = [None]
        if case['auth'] == 'spred' and aio:
            async def slow(p, inner=auth):
                if gate_box[0] is not None:
                    await gate_box[0]
                return await inner(p)
            auth = slow
        w.sio.instrument(auth=auth, mode=case['mode'],
                         read_only=case['read_only'])
        labels = {'part': 'gate', 'aio': aio, 'auth': case['auth'],
                  'nontrivial': False}
        app_t = w.open()
        w.connect(app_t, '/')
        refused = []
        if case['auth'] == 'spred' and aio:
            # a predicate that takes its time (a database look-up): while a
            # candidate's verdict is pending, application traffic goes on
            loop = w.h.loop
            gate = gate_box[0] = loop.create_future()
            t = w.open()
            P = w.h.eio_packet
            sock = w.h.eio.sockets[w.t[t]]
            task = loop.spawn(sock.receive(P.Packet(
                P.MESSAGE, '0/admin,' + {
                    'absent': '', 'empty': '{}'}.get(
                        case.get('slow_payload'),
                        '{"username":"nobody","password":"x"}'))))
            loop.run_until_idle()
            pending = not task.done()
            # ... and the candidate does not wait for its verdict either: it
            # sends the admin commands right away
            w.recv(app_t)
            if not case['read_only']:
                w.send(t, wire.EVENT, '/admin', None,
                       ['emit', '/', None, 'pwned', 'boo'])
                w.h.settle()
                got_app = w.recv(app_t)
                if pending and any('pwned' in repr(p) for p in got_app):
                    raise Violation('pending-admin-command-executed',
                                    'a candidate whose authentication was '
                                    'still pending (and then failed) had its '
                                    'emit command executed: the application '
                                    'client received %r' % (got_app[:1],))
            w.send(app_t, wire.EVENT, '/', None, ['a', 'secret-123'])
            w.h.settle()
            leaked = [p for p in w.recv(t) if 'secret-123' in repr(p)]
            gate.set_result(None)
            loop.run_until_idle()
            later = w.recv(t)
            if pending and leaked:
                det = ('a candidate whose authentication was still pending '
                       'was sent %r' % (leaked[:1],))
                if KF_PENDING in KNOWN:
                    labels['kf:' + KF_PENDING] = True
                else:
                    raise Violation(KF_PENDING, det)
            if wire.CONNECT in [p['type'] for p in later
                                if p['nsp'] == '/admin']:
                raise Violation('admin-accepted-without-credentials',
                                repr(later[:2]))
            refused.append(t)
            labels['verdict_pending_while_traffic'] = pending
            labels['pending_candidate_payload'] = case.get('slow_payload',
                                                           'wrong')
            labels['nontrivial'] = True
            gate_box[0] = None
        payloads = list(case['payloads'])
        if case.get('prior'):
            payloads.insert(len(payloads) // 2, dict(DECOY))
            labels['other_instrumented_server_in_process'] = True
            labels['nontrivial'] = True
        for payload in payloads:
            t = w.open()
            data = None if payload == '<absent>' else payload
            w.send(t, wire.CONNECT, '/admin', data=data)
            w.h.settle()
            pk = w.recv(t)
            want = oracle(data)
            types = [p['type'] for p in pk if p['nsp'] == '/admin']
            accepted = wire.CONNECT in types
            err = [p for p in pk if p['type'] == wire.CONNECT_ERROR]
            if want:
                if not accepted or err:
                    raise Violation('admin-refused-with-valid-credentials',
                                    'auth=%s payload=%r: %r'
                                    % (case['auth'], data, pk[:3]))
                labels['accepted'] = True
            else:
                if accepted:
                    raise Violation('admin-accepted-without-credentials',
                                    'auth=%s payload=%r: %r'
                                    % (case['auth'], data, pk[:3]))
                raised = False
                if case['auth'] in ('rpred', 'rapred'):
                    try:
                        _rpred(data)
                    except Exception:
                        raised = True
                        w.h.swallowed[:] = []
                        labels['predicate_raised'] = True
                        labels['nontrivial'] = True
                if raised:
                    # how the attempt is turned down is not prescribed
                    if len(err) > 1 or any(e['nsp'] != '/admin'
                                           for e in err):
                        raise Violation('admin-refusal-shape', repr(pk))
                elif len(err) != 1 or err[0]['nsp'] != '/admin' or \
                        err[0]['data'] != {'message':
                                           'authentication failed'}:
                    raise Violation('admin-refusal-shape', repr(pk))
                refused.append(t)
                labels['refused'] = True
                if isinstance(data, dict) and (
                        set(data) >= set(CREDS) or data == dict(
                            reversed(list(CREDS.items())))):
                    labels['nontrivial'] = True
                    labels['near_miss'] = True
            if want and isinstance(data, dict) and list(data) != list(CREDS):
                labels['nontrivial'] = True
        # whatever happens afterwards, refused candidates hold nothing
        t2 = w.open()
        ci, _ = w.connect(t2, '/x')
        if ci is not None:
            c = w.clients[ci]
            w.do(w.sio.enter_room(c['sid'], 'r1', namespace='/x'))
            w.send(t2, wire.EVENT, '/x', 1, ['a', 1])
            w.h.settle()
            w.do(w.sio.emit('ev', 1, namespace='/x'))
            w.send(t2, wire.DISCONNECT, '/x')
            w.h.settle()
        m = w.sio.manager
        for t in refused:
            eio_sid = w.t[t]
            if m.sid_from_eio_sid(eio_sid, '/admin') is not None:
                raise Violation('refused-admin-has-membership', '')
            for room, members in m.rooms.get('/admin', {}).items():
                if eio_sid in members.values():
                    raise Violation('refused-admin-has-membership',
                                    'room %r' % (room,))
            later = [p for p in w.recv(t) if p['nsp'] == '/admin']
            if later:
                raise Violation('refused-admin-receives-traffic',
                                repr(later[:2]))
        return labels
    finally:
        w.close()


def _readonly(case):
    aio = case['aio']
    w, log = _app_server(aio)
    try:
        w.sio.instrument(auth=False, mode=case['mode'],
                         read_only=case['read_only'])
        labels = {'part': 'readonly', 'aio': aio, 'mode': case['mode'],
                  'read_only': case['read_only'], 'nontrivial': False}
        apps = []
        for ns in ('/', '/', '/x'):
            t = w.open()
            ci, _ = w.connect(t, ns)
            c = w.clients[ci]
            w.do(w.sio.enter_room(c['sid'], 'r1', namespace=ns))
            apps.append(c)
        ta = w.open()
        ci, pk = w.connect(ta, '/admin')
        if ci is None:
            raise Violation('admin-refused-with-auth-disabled', repr(pk))
        w.h.settle()
        w.recv_all()
        table = {'§S0§': apps[0]['sid'], '§S1§': apps[2]['sid']}
        protected = case['read_only'] or case['mode'] != 'development'

        def snap():
            return [(sorted(map(repr, w.sio.rooms(c['sid'],
                                                  namespace=c['ns']))),
                     w.sio.manager.is_connected(c['sid'], c['ns']))
                    for c in apps]
        for cmd in case['cmds']:
            before = snap()
            nlog = len(log)
            ev = cmd['ev']
            f = table.get(cmd.get('filter'), cmd.get('filter'))
            if ev == 'emit':
                args = [cmd['ns'], f, cmd['event']] + list(cmd['data'])
            elif ev in ('join', 'leave'):
                args = [cmd['ns'], cmd['room'], f]
            elif ev == '_disconnect':
                args = [cmd['ns'], cmd['close'], f]
            else:
                args = list(cmd['args'])
            w.send(ta, wire.EVENT, '/admin', None, [ev] + args)
            w.h.settle()
            after = snap()
            got = {t: w.recv(t) for t in range(len(w.t)) if t != ta}
            w.recv(ta)
            if protected:
                if before != after:
                    raise Violation('read-only-admin-changed-state',
                                    '%s %r: %r -> %r' % (ev, args, before,
                                                         after))
                if any(got.values()):
                    raise Violation('read-only-admin-caused-traffic',
                                    '%s %r: %r' % (ev, args, got))
                if len(log) != nlog:
                    raise Violation('read-only-admin-triggered-handlers',
                                    repr(log[nlog:]))
                if ev in ('emit', 'join', 'leave', '_disconnect') and \
                        cmd['ns'] in ('/', '/x'):
                    labels['nontrivial'] = True
            elif before != after or any(got.values()):
                labels['command_took_effect'] = True
        return labels
    finally:
        w.close()


def _transparency(case):
    aio = case['aio']
    sc = case['sc']

    def setup(w):
        w.sio.instrument(auth=False, mode=case['mode'],
                         read_only=case['read_only'])
        hooks = {}
        if case['admin']:
            ta = w.open()
            st_ = {'on': False}

            def admin_connect():
                w.send(ta, wire.CONNECT, '/admin')
                w.h.settle()
                st_['on'] = True

            def after_step(step):
                if isinstance(step, int):
                    if not st_['on'] and step == case.get('admin_at'):
                        admin_connect()
                    elif st_['on'] and step == case.get('admin_until'):
                        w.send(ta, wire.DISCONNECT, '/admin')
                        w.h.settle()
                        st_['on'] = False
                w.h.drain(w.t[ta])
            if case.get('admin_at') is None:
                admin_connect()
            w.h.drain(w.t[ta])
            hooks['after_step'] = after_step
        return hooks
    plain, la = scenario.run_server_scenario(sc, aio=aio, coro=case['coro'])
    inst, lb = scenario.run_server_scenario(sc, aio=aio, coro=case['coro'],
                                            setup=setup)
    from .c14 import _first_diff
    d = _first_diff(plain, inst)
    if d is not None:
        i, x, y = d
        raise Violation('instrumentation-visible',
                        'mode=%s admin=%s entry %d: plain %r / instrumented '
                        '%r (previous %r)' % (case['mode'], case['admin'], i,
                                              x, y, plain[max(0, i - 2):i]))
    ops = [o['op'] for o in sc['ops']]
    return {'part': 'transparency', 'aio': aio, 'mode': case['mode'],
            'admin': case['admin'],
            'nontrivial': bool(case['admin'] and {'enter', 'leave',
                                                  'close_room'} & set(ops)
                               and {'cdisc', 'sdisc', 'lose'} & set(ops))}


def classify(case, v):
    return v.kind
