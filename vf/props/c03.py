"""C03 Rooms: an emit reaches exactly the addressed members, once each."""
from hypothesis import strategies as st

from .. import wire
from ..core import Violation
from ..world import World

PID = 'C03'
DISC_FAULT = 'application disconnect handler fault'
RULE = ('Model-based stateful testing: Hypothesis-generated histories over '
        '{connect, enter_room, leave_room, close_room, client DISCONNECT, '
        'server.disconnect, transport loss, emit(to=None|room|list|sid, '
        'skip_sid=None|sid|list, namespace), ops on unknown namespaces, '
        'late enter_room / leave_room for clients that have gone, a '
        'recipient whose transport dies during an emit, an application '
        'disconnect handler that raises or ends with CancelledError and '
        'that looks at rooms(sid) of the client that is leaving} run '
        'against the real Server/AsyncServer on real engine.io sockets and '
        'against a set-based room model; after every emit the per-transport '
        'queues must contain exactly the expected recipients once each, and '
        'after every step rooms(sid) must equal the model. Non-trivial: the '
        'history has an emit to >=2 rooms sharing a member, or an emit after '
        'a leave/close/disconnect that changed the addressed set, or a '
        'skip_sid that removes an addressed member. Distinct on the op list.'
        ' Servers use the default or the msgpack serializer; on the asyncio server the send to one recipient of an emit can raise SocketIsClosedError (the others are served all the same).')
ASSUMPTIONS = [
    'the personal room is modelled as a room entered at connect',
    'operations on clients that never existed are not generated (only '
    'departed clients, unknown '
    'namespaces / rooms); exceptions are tolerated only for a namespace the '
    'client is not connected to and must leave the state unchanged',
    'engine.io Socket queues are the observation point',
]
BUDGET = {'quick': 6000, 'thorough': 80000}
FLOOR = {'quick': 100, 'thorough': 5000}

NSS = ['/', '/a', '/b']
ROOMS = ['r1', 'r2', 'room/3', 7, -1]


def _room_ref():
    return st.one_of(st.integers(0, len(ROOMS) - 1),
                     st.fixed_dictionaries({'sidof': st.integers(0, 7)}))


def strategy(tier):
    n_ops = 40 if tier == 'quick' else 120
    ci = st.integers(0, 11)
    ns = st.integers(0, 3)       # 3 = a namespace the server does not serve
    op = st.one_of(
        st.fixed_dictionaries({'op': st.just('connect'),
                               't': st.integers(0, 5), 'ns': ns}),
        st.fixed_dictionaries({'op': st.just('connect'),
                               't': st.integers(0, 5), 'ns': ns}),
        # the connect handler enters a room and then refuses the client
        st.fixed_dictionaries({'op': st.just('connect'),
                               't': st.integers(0, 5), 'ns': ns,
                               'refuse': st.just(True)}),
        st.fixed_dictionaries({'op': st.just('enter'), 'c': ci,
                               'room': _room_ref()}),
        st.fixed_dictionaries({'op': st.just('leave'), 'c': ci,
                               'room': _room_ref()}),
        st.fixed_dictionaries({'op': st.just('close_room'),
                               'room': _room_ref(), 'ns': ns}),
        st.fixed_dictionaries({'op': st.just('cdisc'), 'c': ci}),
        st.fixed_dictionaries({'op': st.just('sdisc'), 'c': ci}),
        st.fixed_dictionaries({'op': st.just('lose'), 't': st.integers(0, 5)}),
        # the application enters / leaves a room for a client that has
        # already gone (a handler that was suspended meanwhile): it may be
        # refused, it must not bring the client back
        st.fixed_dictionaries({'op': st.just('late'), 'c': ci,
                               'what': st.sampled_from(['enter', 'enter',
                                                        'leave']),
                               'room': _room_ref()}),
        st.fixed_dictionaries({
            'op': st.just('emit'), 'ns': ns,
            'to': st.one_of(
                st.none(), _room_ref(),
                st.lists(_room_ref(), min_size=1, max_size=4),
                st.fixed_dictionaries({'sid': ci}),
                st.fixed_dictionaries({'sid': ci, 'any': st.just(True)})),
            'skip': st.one_of(st.none(), ci, st.lists(ci, max_size=3)),
            'alias': st.booleans(),
            # fault: the transport of one recipient turns out to be dead
            # (ping timeout) at the moment the emit tries to send to it
            'dying': st.one_of(st.none(), st.none(), ci),
            # ... or (asyncio server, whose emit sends to every recipient in
            # a task of its own) the send to it fails: the socket has been
            # closed, its loss is reported afterwards
            'dying_how': st.sampled_from(['ping', 'ping', 'raises'])}),
        # a broadcast / room emit one of whose recipients is dying
        st.fixed_dictionaries({
            'op': st.just('emit'), 'ns': ns,
            'to': st.one_of(st.none(), st.none(), _room_ref()),
            'skip': st.none(), 'alias': st.booleans(), 'dying': ci,
            'dying_how': st.sampled_from(['ping', 'raises', 'raises'])}),
        st.fixed_dictionaries({
            'op': st.just('emit'), 'ns': ns,
            'to': st.lists(st.integers(0, 2), min_size=2, max_size=4),
            'skip': st.one_of(st.none(), ci), 'alias': st.booleans()}),
        # an emit with a byte string in its payload
        st.fixed_dictionaries({
            'op': st.just('emit'), 'ns': ns, 'binary': st.just(True),
            'to': st.one_of(st.none(), _room_ref()),
            'skip': st.none(), 'alias': st.booleans()}),
        st.fixed_dictionaries({'op': st.just('enter'), 'c': ci,
                               'room': st.integers(0, 2)}),
    )
    connect = st.fixed_dictionaries({'op': st.just('connect'),
                                     't': st.integers(0, 5),
                                     'ns': st.integers(0, 2)})
    enter = st.fixed_dictionaries({'op': st.just('enter'), 'c': ci,
                                   'room': st.integers(0, 2)})
    return st.fixed_dictionaries({
        'aio': st.booleans(),
        # (msgpack: every packet is a byte string, which engine.io frames
        # differently per transport)
        'serializer': st.sampled_from(['default', 'default', 'msgpack']),
        'ntrans': st.integers(2, 6),
        'always_connect': st.booleans(),
        # how each transport frames what it sends (None: not emulated)
        'framing': st.lists(st.sampled_from([None, 'ws', 'polling']),
                            min_size=6, max_size=6),
        # the application's disconnect handler fails at its k-th invocation
        # (asyncio: a coroutine handler, 'cancel' = ends with CancelledError)
        'disc_fault': st.one_of(st.none(), st.none(), st.fixed_dictionaries({
            'k': st.integers(0, 3),
            'exc': st.sampled_from(['raise', 'cancel'])})),
        'init': st.tuples(st.lists(connect, min_size=3, max_size=8),
                          st.lists(enter, min_size=2, max_size=8)).map(
            lambda t: t[0] + t[1]),
        'ops': st.lists(op, min_size=6, max_size=n_ops)})


class Model:
    def __init__(self):
        self.members = {}      # ns -> room -> set(client index)
        self.alive = {}        # client index -> ns

    def connect(self, ci, ns, sid):
        self.alive[ci] = ns
        self.members.setdefault(ns, {}).setdefault(sid, set()).add(ci)

    def enter(self, ci, room):
        ns = self.alive[ci]
        self.members.setdefault(ns, {}).setdefault(room, set()).add(ci)

    def leave(self, ci, room):
        ns = self.alive[ci]
        self.members.get(ns, {}).get(room, set()).discard(ci)

    def close(self, ns, room):
        self.members.get(ns, {}).pop(room, None)

    def gone(self, ci):
        ns = self.alive.pop(ci, None)
        if ns is not None:
            for s in self.members.get(ns, {}).values():
                s.discard(ci)

    def rooms(self, ci):
        ns = self.alive.get(ci)
        if ns is None:
            return set()
        return {r for r, s in self.members.get(ns, {}).items() if ci in s}

    def addressed(self, ns, rooms):
        on_ns = {c for c, n in self.alive.items() if n == ns}
        if rooms is None:
            return on_ns
        out = set()
        for r in rooms:
            out |= self.members.get(ns, {}).get(r, set())
        return out & on_ns


def check_case(case):
    w = World(aio=case['aio'], namespaces=NSS,
              serializer=case.get('serializer', 'default'),
              always_connect=case.get('always_connect', False))
    try:
        return _run(case, w)
    finally:
        w.close()


def _run(case, w):
    sio = w.sio
    df = case.get('disc_fault')
    dstate = {'n': 0}

    def d_hit():
        n = dstate['n']
        dstate['n'] += 1
        if df and n == df['k']:
            if df['exc'] == 'cancel' and case['aio']:
                import asyncio
                raise asyncio.CancelledError()
            raise RuntimeError(DISC_FAULT)
    seen_in_handler = []    # (sid, namespace, rooms() inside the handler)

    def mk_disc(n):
        if case['aio']:
            async def on_disc(sid, reason):
                seen_in_handler.append((sid, n, sio.rooms(sid, namespace=n)))
                d_hit()
        else:
            def on_disc(sid, reason):
                seen_in_handler.append((sid, n, sio.rooms(sid, namespace=n)))
                d_hit()
        return on_disc
    def mk_conn(n):
        if case['aio']:
            async def on_conn(sid, environ, auth=None):
                if auth == {'refuse': 1}:
                    await sio.enter_room(sid, ROOMS[0], namespace=n)
                    return False
        else:
            def on_conn(sid, environ, auth=None):
                if auth == {'refuse': 1}:
                    sio.enter_room(sid, ROOMS[0], namespace=n)
                    return False
        return on_conn
    for n in NSS:
        sio.on('connect', mk_conn(n), namespace=n)
        sio.on('disconnect', mk_disc(n), namespace=n)
    for i_ in range(case['ntrans']):
        t_ = w.open()
        fr_ = (case.get('framing') or [None] * 6)[i_ % 6]
        if fr_ is not None:
            w.h.framing[w.t[t_]] = fr_
    m = Model()
    labels = {'aio': case['aio'], 'nontrivial': False}
    removed = set()   # (ns, repr(room)) whose membership shrank

    def note_gone(i):
        ns = m.alive.get(i)
        for r in m.rooms(i):
            removed.add((ns, repr(r)))
        removed.add((ns, '*'))
    tag = 0

    def ns_of(i):
        return NSS[i] if i < len(NSS) else '/unserved'

    def room_of(r):
        if isinstance(r, dict):
            if not w.clients:
                return 'r1'
            return w.clients[r['sidof'] % len(w.clients)]['sid']
        return ROOMS[r]

    def live_ref(i):
        lv = w.live()
        return lv[i % len(lv)] if lv else None

    def check_rooms(step):
        for i, c in enumerate(w.clients):
            got = sio.rooms(c['sid'], namespace=c['ns'])
            if len(got) != len(set(got)):
                raise Violation('rooms-duplicate', 'step %d: %r' % (step, got))
            want = m.rooms(i) if c['alive'] else set()
            if set(got) != want:
                raise Violation(
                    'rooms-mismatch', 'step %d client %d (%s): rooms()=%r '
                    'model=%r' % (step, i, 'alive' if c['alive'] else 'gone',
                                  sorted(map(repr, got)),
                                  sorted(map(repr, want))))

    def check_handler_view(step, before_end):
        """Inside its disconnect handler a client is still in the rooms it
        was in when its end began."""
        for sid, n, got in seen_in_handler:
            if sid in before_end and set(got) != before_end[sid]:
                raise Violation('rooms-mismatch-in-disconnect-handler',
                                'step %d: rooms(%s) inside its disconnect '
                                'handler %r, it was in %r'
                                % (step, sid, sorted(map(repr, got)),
                                   sorted(map(repr, before_end[sid]))))
            if sid in before_end and len(before_end[sid]) > 1:
                labels['rooms_seen_from_disconnect_handler'] = True
        del seen_in_handler[:]

    def expect_quiet(step, allowed=()):
        for t, pkts in w.recv_all().items():
            for p in pkts:
                if (t, p['type'], p['nsp']) in allowed:
                    continue
                raise Violation('unexpected-packet',
                                'step %d transport %d got %r' % (step, t, p))

    for step, op in enumerate(case.get('init', []) + case['ops']):
        k = op['op']
        if k == 'connect':
            t = op['t'] % len(w.t)
            if not w.t_alive[t]:
                continue
            ns = ns_of(op['ns'])
            dup = w.client_on(t, ns) is not None
            if op.get('refuse') and ns in NSS and not dup:
                ci, pkts = w.connect(t, ns, {'refuse': 1})
                if ci is not None:
                    # always_connect: CONNECT, then DISCONNECT
                    if [p['type'] for p in pkts] != [wire.CONNECT,
                                                     wire.DISCONNECT]:
                        raise Violation('connect-refusal-shape', repr(pkts))
                    w.mark_dead(ci)
                elif [p['type'] for p in pkts] != [wire.CONNECT_ERROR]:
                    raise Violation('connect-refusal-shape', repr(pkts))
                labels['refused_after_entering_a_room'] = True
                continue
            ci, pkts = w.connect(t, ns)
            served = ns in NSS
            if served and not dup:
                if ci is None:
                    raise Violation('connect-not-accepted', repr(pkts))
                m.connect(ci, ns, w.clients[ci]['sid'])
            else:
                if ci is not None:
                    raise Violation('connect-accepted-unexpectedly',
                                    repr(pkts))
                if [p['type'] for p in pkts] != [wire.CONNECT_ERROR]:
                    raise Violation('connect-refusal-shape', repr(pkts))
        elif k in ('enter', 'leave'):
            ci = live_ref(op['c'])
            if ci is None:
                continue
            c = w.clients[ci]
            room = room_of(op['room'])
            fn = sio.enter_room if k == 'enter' else sio.leave_room
            w.do(fn(c['sid'], room, namespace=c['ns']))
            if k == 'enter':
                m.enter(ci, room)
            else:
                if ci in m.members.get(c['ns'], {}).get(room, set()):
                    removed.add((c['ns'], repr(room)))
                m.leave(ci, room)
        elif k == 'late':
            gone_ = [i for i, c_ in enumerate(w.clients) if not c_['alive']]
            if not gone_:
                continue
            c = w.clients[gone_[op['c'] % len(gone_)]]
            room = room_of(op['room'])
            fn = sio.enter_room if op['what'] == 'enter' else sio.leave_room
            try:
                w.do(fn(c['sid'], room, namespace=c['ns']))
            except (KeyError, ValueError):
                pass
            labels['late_room_call_on_gone_client'] = True
        elif k == 'close_room':
            ns = ns_of(op['ns'])
            room = room_of(op['room'])
            if m.members.get(ns, {}).get(room):
                removed.add((ns, repr(room)))
            w.do(sio.close_room(room, namespace=ns))
            m.close(ns, room)
        elif k == 'cdisc':
            ci = live_ref(op['c'])
            if ci is None:
                continue
            c = w.clients[ci]
            before_end = {c['sid']: set(m.rooms(ci))}
            w.send(c['t'], wire.DISCONNECT, c['ns'])
            w.mark_dead(ci)
            note_gone(ci)
            m.gone(ci)
            check_handler_view(step, before_end)
        elif k == 'sdisc':
            ci = live_ref(op['c'])
            if ci is None:
                continue
            c = w.clients[ci]
            before_end = {c['sid']: set(m.rooms(ci))}
            try:
                w.do(sio.disconnect(c['sid'], namespace=c['ns']))
            except RuntimeError as e:
                if DISC_FAULT not in str(e):
                    raise
            w.mark_dead(ci)
            note_gone(ci)
            m.gone(ci)
            check_handler_view(step, before_end)
            got = w.recv(c['t'])
            if [(p['type'], p['nsp']) for p in got] != \
                    [(wire.DISCONNECT, c['ns'])]:
                raise Violation('server-disconnect-frames', repr(got))
        elif k == 'lose':
            t = op['t'] % len(w.t)
            if not w.t_alive[t]:
                continue
            before_end = {}
            for i, c in enumerate(w.clients):
                if c['t'] == t and c['alive']:
                    before_end[c['sid']] = set(m.rooms(i))
                    note_gone(i)
                    m.gone(i)
            w.lose(t)
            check_handler_view(step, before_end)
        elif k == 'emit':
            ns = ns_of(op['ns'])
            to = op['to']
            if to is None:
                arg, rooms = None, None
            elif isinstance(to, list):
                arg = [room_of(r) for r in to]
                rooms = arg
            elif isinstance(to, dict) and 'sid' in to:
                if to.get('any'):
                    if not w.clients:
                        continue
                    arg = w.clients[to['sid'] % len(w.clients)]['sid']
                else:
                    ci = live_ref(to['sid'])
                    if ci is None:
                        continue
                    arg = w.clients[ci]['sid']
                rooms = [arg]
            else:
                arg = room_of(to)
                rooms = [arg]
            skip = op['skip']
            skip_set = set()
            if skip is None:
                sarg = None
            elif isinstance(skip, list):
                sarg = []
                for s in skip:
                    if w.clients:
                        j = s % len(w.clients)
                        sarg.append(w.clients[j]['sid'])
                        skip_set.add(j)
            else:
                if w.clients:
                    j = skip % len(w.clients)
                    sarg = w.clients[j]['sid']
                    skip_set.add(j)
                else:
                    sarg = None
            tag += 1
            kw = {'skip_sid': sarg, 'namespace': ns}
            if arg is not None:
                kw['room' if op.get('alias') else 'to'] = arg
            addressed = m.addressed(ns, rooms)
            expected = addressed - skip_set
            dying = None
            if op.get('dying') is not None and len(expected) >= 2:
                exp_sorted = sorted(expected)
                dying = exp_sorted[op['dying'] % len(exp_sorted)]
                dsock = w.h.socket(w.t[w.clients[dying]['t']])
                raising = None
                if dsock is None or dsock.closed:
                    dying = None
                elif op.get('dying_how') == 'raises':
                    if not case['aio']:
                        dying = None
                    else:
                        import engineio
                        raising = (sio.eio.send, sio.eio.send_packet)
                        dead = w.t[w.clients[dying]['t']]

                        def mk_bad(orig):
                            async def bad(eio_sid, *a, **kw_):
                                if eio_sid == dead:
                                    raise engineio.exceptions \
                                        .SocketIsClosedError()
                                return await orig(eio_sid, *a, **kw_)
                            return bad
                        sio.eio.send, sio.eio.send_packet = map(mk_bad,
                                                                raising)
                        labels['send_to_one_recipient_raises'] = True
                else:
                    # engine.io notices the ping timeout inside send(), closes
                    # the socket and reports the disconnect from there
                    dsock.last_ping = 1.0
            payload = {'tag': tag}
            if op.get('binary'):
                payload = {'tag': tag, 'blob': b'\x00\x01'}
                labels['binary_emit'] = True
            try:
                w.do(sio.emit('ev', payload, **kw))
            except Exception as e:
                # (whether the failing send is reported to the caller is not
                # judged; who was served is)
                if dying is None or raising is None or \
                        type(e).__name__ != 'SocketIsClosedError':
                    raise
            finally:
                if dying is not None and raising is not None:
                    sio.eio.send, sio.eio.send_packet = raising
            if dying is not None and raising is not None:
                w.h.settle()
                w.h.lose(w.t[w.clients[dying]['t']])
            if dying is not None:
                dt = w.clients[dying]['t']
                expected = expected - {dying}
                for i, c2 in enumerate(w.clients):
                    if c2['t'] == dt and c2['alive']:
                        note_gone(i)
                        m.gone(i)
                        c2['alive'] = False
                w.t_alive[dt] = False
                w.h.drain(w.t[dt])
                w.h.eio.sockets.pop(w.t[dt], None)
                labels['recipient_died_during_emit'] = True
                labels['nontrivial'] = True
            got = w.recv_all()
            want = {}
            for ci in expected:
                c = w.clients[ci]
                want.setdefault(c['t'], []).append(c['ns'])
            for t, pkts in got.items():
                seen = []
                for p in pkts:
                    if p['type'] not in (wire.EVENT, wire.BINARY_EVENT) or \
                            p['data'] != ['ev', payload] or \
                            p['id'] is not None:
                        raise Violation('emit-wrong-packet',
                                        'step %d transport %d: %r'
                                        % (step, t, p))
                    seen.append(p['nsp'])
                if sorted(seen) != sorted(want.get(t, [])):
                    kind = 'emit-duplicate' if len(seen) > len(set(seen)) \
                        else ('emit-missing' if len(seen) < len(
                            want.get(t, [])) else 'emit-extra')
                    raise Violation(
                        kind, 'step %d emit(to=%r, skip=%r, ns=%r): transport'
                        ' %d received on %r, expected %r'
                        % (step, arg, sarg, ns, t, seen, want.get(t, [])))
            # non-triviality
            if rooms is not None and len(set(map(repr, rooms))) >= 2:
                sets = [m.addressed(ns, [r]) for r in rooms]
                if any(sets[i] & sets[j] for i in range(len(sets))
                       for j in range(i + 1, len(sets))
                       if repr(rooms[i]) != repr(rooms[j])):
                    labels['nontrivial'] = True
                    labels['multi_room_shared_member'] = True
            if (rooms is None and (ns, '*') in removed) or (
                    rooms is not None and any(
                        (ns, repr(r)) in removed for r in rooms)):
                labels['nontrivial'] = True
                labels['emit_after_change'] = True
            if addressed & skip_set:
                labels['nontrivial'] = True
                labels['skip_removes_member'] = True
        expect_quiet(step)
        check_rooms(step)
    labels['clients'] = min(len(w.clients), 6)
    return labels


def classify(case, v):
    return v.kind
