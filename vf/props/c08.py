"""C08 Client state mirrors the server; disconnect reported once per
namespace."""
from hypothesis import strategies as st

from .. import strategies as S
from .. import wire
from ..case import strict_eq
from ..core import Violation
from ..eio_client import ClientHarness

PID = 'C08'
DISC_FAULT = 'application disconnect handler fault'
KNOWN = set()
KF_ROOT = 'root-namespace-error-clears-all'
RULE = ('Model-based stateful testing of Client / AsyncClient on the real '
        'engine.io client object with the network cut away: generated '
        'histories of connect(namespaces None|str|list, auth value|callable, '
        'wait), scripted server answers per namespace (CONNECT with sid / '
        'CONNECT_ERROR with data / silence) in generated order and chunks, '
        'server DISCONNECT per namespace, emit/send/call on connected and '
        'unconnected namespaces, disconnect(), transport loss at any point '
        '(incl. between a binary header and its attachment and with '
        'callbacks outstanding), server CLOSE, a server DISCONNECT that '
        'overlaps the end of the transport (same read as the CLOSE, or the '
        'transport lost while its asynchronous disconnect handler still '
        'runs), and new connections; an '
        'application connect handler that raises or (asyncio) outlasts '
        'wait_timeout while the server accepts every namespace; function '
        'and class-based handlers. Oracle: model of what the scripted server '
        'has accepted and not ended (namespaces, sids, connected flag, '
        'CONNECT frames with auth, connect()/ConnectionError outcome, '
        'connect_error arguments, BadNamespaceError without traffic, connect '
        'handler once per accepted namespace, disconnect handler once per '
        'connected namespace, nothing survives into the next connection). '
        'Non-trivial: >=2 namespaces with different fates, or a fault '
        'between a binary header and its attachment, or a second connection '
        'after a fault. Application faults: a disconnect handler that raises '
        'or (asyncio) ends in CancelledError at its k-th invocation.'
        ' Also generated: the application answers a loss with disconnect() (from the first disconnect handler; asyncio also from another task while that handler is suspended).'
        ' The server can end every namespace with DISCONNECT packets dispatched while the handler of an earlier one still runs (re-entrant on the threaded client).')
ASSUMPTIONS = [
    'reconnection is disabled here (C10 covers it)',
    'the disconnect-once clause is judged only when every requested '
    'namespace was accepted and the server ends only connected namespaces',
    'the connected flag is judged when at least one namespace is accepted '
    '(must be set), when the last accepted one has ended or connect() '
    'failed (must be clear)',
]
BUDGET = {'quick': 6000, 'thorough': 80000}
FLOOR = {'quick': 150, 'thorough': 5000}
NSS = ['/', '/a', '/b']


def strategy(tier):
    big = tier == 'thorough'
    nsi = st.integers(0, 2)
    auth = st.one_of(st.none(), st.just({}),
                     st.dictionaries(st.sampled_from(['token', 'u']),
                                     S.leaves_st(with_bytes=False),
                                     min_size=1, max_size=2),
                     st.sampled_from(['tok', ['x', 1], True]))
    errdata = st.one_of(st.none(), st.just('Unable to connect'),
                        st.fixed_dictionaries({'message': st.text(max_size=5)}),
                        st.lists(S.leaves_st(with_bytes=False), max_size=3),
                        st.fixed_dictionaries({
                            'message': st.just('no'),
                            'data': S.tree_st(with_bytes=False,
                                              max_leaves=3)}))
    answer = st.one_of(
        st.fixed_dictionaries({'a': st.just('ok')}),
        st.fixed_dictionaries({'a': st.just('ok')}),
        st.fixed_dictionaries({'a': st.just('ok')}),
        st.fixed_dictionaries({'a': st.just('err'), 'data': errdata}),
        # accepted and ended at once (what an always_connect server sends
        # when its connect handler refuses): CONNECT, then DISCONNECT
        st.fixed_dictionaries({'a': st.just('ok_then_disc')}),
        st.fixed_dictionaries({'a': st.just('silent')}))
    connect = st.fixed_dictionaries({
        'op': st.just('connect'),
        'namespaces': st.one_of(st.none(), nsi,
                                st.lists(nsi, min_size=1, max_size=3,
                                         unique=True)),
        'auth': auth, 'auth_callable': st.booleans(), 'wait': st.booleans(),
        'answers': st.lists(answer, min_size=3, max_size=3),
        'order': st.permutations([0, 1, 2]),
        'chunks': st.lists(st.integers(1, 3), min_size=1, max_size=3),
        # the application's connect handler of one namespace raises, or
        # (asyncio) runs longer than wait_timeout
        'chf': st.one_of(st.none(), st.none(), st.fixed_dictionaries({
            'ns': nsi, 'mode': st.sampled_from(['raise', 'stall'])}))})
    op = st.one_of(
        connect, connect,
        st.fixed_dictionaries({'op': st.just('sdisc'), 'ns': nsi}),
        st.fixed_dictionaries({'op': st.just('emit'), 'ns': nsi,
                               'kind': st.sampled_from(['emit', 'send',
                                                        'call']),
                               'data': S.payload_st(max_leaves=3),
                               'cb': st.booleans()}),
        st.fixed_dictionaries({'op': st.just('emit'), 'ns': nsi,
                               'kind': st.sampled_from(['emit', 'send']),
                               'data': st.just('d'), 'cb': st.just(True)}),
        st.fixed_dictionaries({'op': st.just('sdisc_all')}),
        # ... all at once: each DISCONNECT packet is dispatched while the
        # disconnect handler of an earlier one is still running (engine.io
        # gives every message a thread / task of its own)
        st.fixed_dictionaries({'op': st.just('sdisc_all_overlap')}),
        # the server ends one namespace and the connection ends at once (one
        # read: DISCONNECT packet + engine.io CLOSE), or the transport is
        # lost while the application's disconnect handler of that namespace
        # is still running: one invocation per namespace all the same
        st.fixed_dictionaries({'op': st.just('sdisc_overlap'), 'ns': nsi,
                               'how': st.sampled_from(['close', 'lose'])}),
        st.fixed_dictionaries({'op': st.just('disconnect')}),
        st.fixed_dictionaries({'op': st.just('lose')}),
        st.fixed_dictionaries({'op': st.just('close')}),
        st.fixed_dictionaries({'op': st.just('partial'), 'ns': nsi}),
    )
    allok = {'op': 'connect', 'namespaces': None, 'auth': None,
             'auth_callable': False, 'wait': True,
             'answers': [{'a': 'ok'}] * 3, 'order': [0, 1, 2],
             'chunks': [1], 'chf': None}
    # two lives of one client object: what the first one leaves behind (a
    # namespace ended by the server, possibly with a failing handler) must
    # not change how the second one ends
    two_lives = st.tuples(
        st.lists(st.one_of(
            st.fixed_dictionaries({'op': st.just('sdisc'), 'ns': nsi}),
            st.fixed_dictionaries({'op': st.just('sdisc_overlap'),
                                   'ns': nsi,
                                   'how': st.sampled_from(['close',
                                                           'lose'])}),
            st.fixed_dictionaries({'op': st.just('emit'), 'ns': nsi,
                                   'kind': st.just('emit'),
                                   'data': st.just('d'),
                                   'cb': st.just(True)})), max_size=3),
        st.sampled_from(['lose', 'disconnect', 'close']),
        st.sampled_from(['lose', 'disconnect', 'close'])).map(
        lambda t: [dict(allok)] + t[0] + [{'op': t[1]}, dict(allok),
                                          {'op': t[2]}])
    return st.fixed_dictionaries({
        'aio': st.booleans(),
        'style': st.sampled_from(['fn', 'class']),
        # the application's disconnect handler of one namespace raises at
        # its k-th invocation
        # (asyncio, 'cancel': it ends in CancelledError, e.g. because it
        # cancels a worker task of its own and awaits it)
        'disc_fault': st.one_of(st.none(), st.none(), st.fixed_dictionaries({
            'ns': nsi, 'k': st.integers(0, 2),
            'exc': st.sampled_from(['runtime', 'runtime', 'cancel'])})),
        # asyncio: the disconnect handlers do some asynchronous work (they
        # yield to the event loop a few times before they return)
        'disc_yields': st.booleans(),
        # when the transport is lost, the application answers with
        # disconnect() ("do not come back"): called by the first disconnect
        # handler that the loss invokes, or (asyncio) by another task while
        # that handler is suspended
        'loss_app_disc': st.sampled_from([None, None, 'handler', 'task']),
        'ops': st.one_of(st.lists(op, min_size=3,
                                  max_size=40 if big else 18),
                         st.lists(op, min_size=3,
                                  max_size=40 if big else 18),
                         two_lives)})


def check_case(case):
    h = ClientHarness(aio=case['aio'], reconnection=False)
    try:
        return _run(case, h)
    finally:
        h.close()


def _run(case, h):
    import socketio
    sio = h.sio
    aio = case['aio']
    log = []

    armed = {}      # namespace -> fault mode of its next connect handler
    chf_on = [False]

    dfault = case.get('disc_fault')
    yield_on = [False]
    dcount = {}

    app_disc = {'on': False, 'done': False}
    nested_frames = []

    def rec(kind, ns):
        if kind == 'disconnect':
            def fd(*a):
                log.append((kind, ns, a))
                if app_disc['on'] and not app_disc['done'] and not aio:
                    app_disc['done'] = True
                    sio.disconnect()
                if nested_frames:
                    # "another thread" delivers the next packets meanwhile
                    todo = nested_frames[:]
                    del nested_frames[:]
                    for f_ in todo:
                        h.deliver(f_)
                n = dcount.get(ns, 0)
                dcount[ns] = n + 1
                if dfault and NSS[dfault['ns']] == ns and n == dfault['k']:
                    labels['disconnect_handler_raises'] = True
                    if aio and dfault.get('exc') == 'cancel':
                        import asyncio
                        labels['disconnect_handler_cancelled'] = True
                        raise asyncio.CancelledError()
                    raise RuntimeError(DISC_FAULT)
            if not aio:
                return fd

            async def afd(*a):
                r = fd(*a)
                if app_disc['on'] and not app_disc['done']:
                    app_disc['done'] = True
                    if case.get('loss_app_disc') == 'task':
                        h.loop.spawn(sio.disconnect())
                        import asyncio
                        for _ in range(3):
                            await asyncio.sleep(0)
                    else:
                        await sio.disconnect()
                if case.get('disc_yields') and yield_on[0]:
                    # the handler does some asynchronous work
                    import asyncio
                    for _ in range(3):
                        await asyncio.sleep(0)
                return r
            return afd
        if kind != 'connect':
            def f(*a):
                log.append((kind, ns, a))
            return f
        if aio:
            async def fc(*a):
                log.append((kind, ns, a))
                mode = armed.pop(ns, None)
                if mode == 'stall':
                    import asyncio
                    await asyncio.sleep(1.3)
                elif mode:
                    raise RuntimeError('application connect handler fault')
        else:
            def fc(*a):
                log.append((kind, ns, a))
                if armed.pop(ns, None):
                    raise RuntimeError('application connect handler fault')
        return fc

    if case['style'] == 'fn':
        for ns in NSS:
            sio.on('connect', rec('connect', ns), namespace=ns)
            sio.on('disconnect', rec('disconnect', ns), namespace=ns)
            sio.on('connect_error', rec('connect_error', ns), namespace=ns)
            sio.on('ev', rec('ev', ns), namespace=ns)
    else:
        base = socketio.AsyncClientNamespace if aio else \
            socketio.ClientNamespace
        for ns in NSS:
            o = base(ns)
            o.on_connect = rec('connect', ns)
            o.on_disconnect = rec('disconnect', ns)
            o.on_connect_error = rec('connect_error', ns)
            o.on_ev = rec('ev', ns)
            sio.register_namespace(o)

    labels = {'aio': aio, 'style': case['style'], 'nontrivial': False}
    model = {'accepted': {}, 'ever_accepted': False, 'clean': True,
             'engine': False, 'partial': False, 'conn_no': 0}
    reader = wire.Reader()
    sid_ctr = [0]
    faulted = [False]

    def out_packets():
        return reader.read(h.take_msgs())

    def check_state(what, judge_flag=True):
        got = dict(sio.namespaces)
        want = model['accepted']
        if set(got) != set(want):
            raise Violation('namespaces-mismatch',
                            '%s: client %r, server accepted %r'
                            % (what, sorted(got), sorted(want)))
        for ns, sid in want.items():
            if sio.get_sid(ns) != sid:
                raise Violation('sid-mismatch', '%s: %s: %r != %r'
                                % (what, ns, sio.get_sid(ns), sid))
        for ns in NSS:
            if ns not in want and sio.get_sid(ns) is not None:
                raise Violation('sid-survives', '%s: %s' % (what, ns))
        if judge_flag:
            if want and not sio.connected:
                raise Violation('connected-flag-clear',
                                '%s: namespaces %r' % (what, sorted(want)))
            if not want and model['ever_accepted'] and sio.connected:
                raise Violation('connected-flag-set', what)

    def check_ended(what):
        """Nothing survives the end of a connection."""
        if sio.namespaces:
            raise Violation('namespaces-survive', '%s: %r'
                            % (what, sio.namespaces))
        if sio.connected:
            raise Violation('connected-flag-set', what)
        if sio.callbacks:
            raise Violation('callbacks-survive', '%s: %r'
                            % (what, sio.callbacks))
        if sio.get_sid() is not None or sio.sid is not None:
            raise Violation('sid-survives', what)

    def end_model():
        model['accepted'] = {}
        model['engine'] = False
        model['partial'] = False

    def expect_disconnects(before, nss, what):
        new = [e for e in log[before:] if e[0] == 'disconnect']
        if not model['clean']:
            return
        got = sorted(e[1] for e in new)
        if got != sorted(nss):
            kind = 'disconnect-handler-twice' if len(got) > len(set(got)) \
                else ('disconnect-handler-missing' if len(got) < len(nss)
                      else 'disconnect-handler-unexpected')
            raise Violation(kind, '%s: handler ran for %r, connected were %r'
                            % (what, got, sorted(nss)))

    def deliver_answer(ns, ans):
        """The scripted server answers one CONNECT."""
        if ans['a'] == 'silent':
            return
        if not model['engine']:
            return
        if ans['a'] in ('ok', 'ok_then_disc'):
            sid_ctr[0] += 1
            sid = 'sid-%d' % sid_ctr[0]
            nlog = len(log)
            together = ans['a'] == 'ok_then_disc' and aio
            if together:
                # both packets are read back to back, before the task that
                # waits in connect() runs again
                from engineio import packet as ep
                for f in wire.frames(wire.CONNECT, ns, None, {'sid': sid}) \
                        + wire.frames(wire.DISCONNECT, ns):
                    h.loop.spawn(h.eio._receive_packet(
                        ep.Packet(ep.MESSAGE, f)))
                h.loop.run_until_idle()
            else:
                for f in wire.frames(wire.CONNECT, ns, None, {'sid': sid}):
                    h.deliver(f)
            model['accepted'][ns] = sid
            model['ever_accepted'] = True
            new = [e for e in log[nlog:] if e[0] == 'connect']
            if [(e[1], e[2]) for e in new] != [(ns, ())]:
                raise Violation('connect-handler', 'after CONNECT on %s: %r'
                                % (ns, log[nlog:]))
            if ans['a'] == 'ok_then_disc':
                if not together:
                    nlog = len(log)
                    for f in wire.frames(wire.DISCONNECT, ns):
                        h.deliver(f)
                model['accepted'].pop(ns, None)
                model['clean'] = False
                labels['accepted_then_ended_at_once'] = True
                labels['nontrivial'] = True
                newd = [e[1] for e in log[nlog:] if e[0] == 'disconnect']
                if newd != [ns]:
                    raise Violation(
                        'disconnect-handler-missing' if not newd else
                        'disconnect-handler-unexpected',
                        'server ended %s right after accepting it: '
                        'disconnect handlers ran for %r' % (ns, newd))
                if ns in sio.namespaces:
                    raise Violation('namespaces-mismatch', 'server ended %s '
                                    'right after accepting it, the client '
                                    'still lists %r' % (ns, dict(
                                        sio.namespaces)))
                if h.eio.state != 'connected':
                    end_model()
        else:
            nlog = len(log)
            others = [n for n in model['accepted'] if n != ns]
            for f in wire.frames(wire.CONNECT_ERROR, ns, None, ans['data']):
                h.deliver(f)
            model['clean'] = False
            d = ans['data']
            wargs = () if d is None else (tuple(d) if isinstance(
                d, (list, tuple)) else (d,))
            new = [e for e in log[nlog:] if e[0] == 'connect_error']
            if len(new) != 1 or new[0][1] != ns or \
                    not strict_eq(tuple(new[0][2]), wargs):
                raise Violation('connect-error-handler',
                                'after CONNECT_ERROR %r on %s: %r'
                                % (d, ns, log[nlog:]))
            if ns == '/' and len(model['req']) > 1 and model['returned'] \
                    and (set(sio.namespaces) != set(others) or
                         not sio.connected):
                # the refusal of "/" is treated as the end of the whole
                # connection: the other namespaces and the connected flag
                # are wiped although the server keeps serving them
                if KF_ROOT in KNOWN:
                    labels['kf:' + KF_ROOT] = True
                    raise _Stop()
                raise Violation(KF_ROOT, 'CONNECT_ERROR on / while %r were '
                                'accepted: client namespaces %r connected=%r'
                                % (others, dict(sio.namespaces),
                                   sio.connected))

    class _Stop(Exception):
        pass

    def do_connect(op):
        nsp = op['namespaces']
        if nsp is None:
            arg, req = None, list(NSS)
        elif isinstance(nsp, int):
            arg, req = NSS[nsp], [NSS[nsp]]
        else:
            arg, req = [NSS[i] for i in nsp], [NSS[i] for i in nsp]
        auth_calls = []
        auth = op['auth']
        if op['auth_callable']:
            def auth_arg():
                auth_calls.append(1)
                return auth
        else:
            auth_arg = auth
        answers = [(NSS[i], op['answers'][i]) for i in op['order']
                   if NSS[i] in req]
        chunks = list(op['chunks'])
        model['clean'] = True
        model['ever_accepted'] = False
        model['req'] = req
        model['returned'] = not op['wait']
        model['conn_no'] += 1
        if model['conn_no'] >= 2 and faulted[0]:
            labels['nontrivial'] = True
            labels['second_connection_after_fault'] = True
        h.take_outbox()
        first = [True]

        def on_open():
            model['engine'] = True

        def pump(*_):
            """Called at each wait of connect(wait=True)."""
            if first[0]:
                first[0] = False
                check_connect_frames()
            n = chunks.pop(0) if chunks else 1
            if chf_on[0]:
                # a faulting handler does not wake connect(): the remaining
                # answers arrive within the same wait, before it times out
                n = len(answers)
            for _ in range(n):
                if answers:
                    ns, ans = answers.pop(0)
                    deliver_answer(ns, ans)

        def check_connect_frames():
            pk = out_packets()
            want_auth = auth or {}
            got = [(p['type'], p['nsp']) for p in pk]
            if sorted(got) != sorted((wire.CONNECT, n) for n in req):
                raise Violation('connect-frames', 'requested %r: %r'
                                % (req, pk))
            for p in pk:
                if not strict_eq(p['data'], want_auth):
                    raise Violation('connect-frame-auth', '%r != %r'
                                    % (p['data'], want_auth))
            if op['auth_callable'] and len(auth_calls) != 1:
                raise Violation('auth-callable-evaluations',
                                '%d' % len(auth_calls))

        h.on_engine_connected = on_open
        err = None
        nlog0 = len(log)
        armed.clear()
        chf_on[0] = False
        chf = op.get('chf')
        if chf and NSS[chf['ns']] in req and \
                op['answers'][chf['ns']]['a'] == 'ok':
            armed[NSS[chf['ns']]] = chf['mode']
            chf_on[0] = True
            labels['connect_handler_fault'] = True
        if op['wait']:
            if aio:
                task = h.loop.spawn(sio.connect(
                    'http://h', auth=auth_arg, namespaces=arg, wait=True,
                    wait_timeout=1))
                h.loop.run_until_idle()
                while not task.done():
                    if answers or first[0]:
                        pump()
                        h.loop.run_until_idle()
                    elif not h.loop.advance():
                        raise Violation('connect-never-returns', '')
                err = task.exception()
            else:
                h.on_wait = pump
                try:
                    sio.connect('http://h', auth=auth_arg, namespaces=arg,
                                wait=True, wait_timeout=1)
                except socketio.exceptions.ConnectionError as e:
                    err = e
                finally:
                    h.on_wait = None
            all_ok = all(a['a'] == 'ok' for n, a in
                         [(NSS[i], op['answers'][i]) for i in op['order']
                          if NSS[i] in req])
            # the client may have given up before all answers were read
            # only if an answer was an error/silence
            if all_ok:
                if err is not None:
                    raise Violation('connect-raised', repr(err))
                if set(sio.namespaces) != set(req):
                    raise Violation('connect-returned-early',
                                    repr(sio.namespaces))
                check_state('after connect(wait=True)')
            else:
                if not isinstance(err, socketio.exceptions.ConnectionError):
                    raise Violation('connect-did-not-raise',
                                    'answers %r: %r' % (op['answers'], err))
                end_model()
                out_packets()
                labels['connect_failed'] = True
                if sio.connected or sio.namespaces:
                    kind = 'stale-namespaces-after-failed-connect'
                    raise Violation(kind, 'connected=%r namespaces=%r'
                                    % (sio.connected, dict(sio.namespaces)))
                check_ended('after failed connect(wait=True)')
                bad_emit(NSS[0], 'after failed connect')
            fates = {a['a'] for n, a in [(NSS[i], op['answers'][i])
                                         for i in op['order']
                                         if NSS[i] in req]}
            if len(req) >= 2 and len(fates) >= 2:
                labels['nontrivial'] = True
                labels['different_fates'] = True
        else:
            h.do(sio.connect('http://h', auth=auth_arg, namespaces=arg,
                             wait=False))
            check_connect_frames()
            first[0] = False
            if not sio.connected:
                raise Violation('connected-flag-clear',
                                'after connect(wait=False)')
            while answers:
                ns, ans = answers.pop(0)
                deliver_answer(ns, ans)
                check_state('after answer on %s' % ns,
                            judge_flag=bool(model['accepted']))
        h.on_engine_connected = None

    def probe(k):
        """The connection works: a text event is decoded as a fresh packet
        and reaches its handler (nothing half-received survived)."""
        if model['engine'] and not model['partial']:
            for ns in list(model['accepted']):
                nlog = len(log)
                for f in wire.frames(wire.EVENT, ns, None, ['ev', 7]):
                    h.deliver(f)
                if [e for e in log[nlog:]] != [('ev', ns, (7,))]:
                    raise Violation('event-not-delivered',
                                    '%s after %s: %r' % (ns, k, log[nlog:]))

    def bad_emit(ns, what):
        h.take_outbox()
        cb_before = repr(sio.callbacks)
        for kind in ('emit', 'send', 'call'):
            try:
                if kind == 'emit':
                    h.do(sio.emit('x', 1, namespace=ns,
                                  callback=lambda *a: None))
                elif kind == 'send':
                    h.do(sio.send(1, namespace=ns))
                else:
                    h.do(sio.call('x', 1, namespace=ns, timeout=1))
            except socketio.exceptions.BadNamespaceError:
                pass
            except Exception as e:
                raise Violation('unconnected-emit-wrong-error',
                                '%s %s: %r' % (what, kind, e))
            else:
                raise Violation('unconnected-emit-did-not-raise',
                                '%s: %s on %s' % (what, kind, ns))
        if h.take_outbox():
            raise Violation('unconnected-emit-sent-something', what)
        if repr(sio.callbacks) != cb_before:
            raise Violation('unconnected-emit-allocated-callback', what)

    try:
        for step, op in enumerate(case['ops']):
            k = op['op']
            if k == 'connect':
                if model['engine'] or sio.connected or \
                        h.eio.state != 'disconnected':
                    continue
                do_connect(op)
                probe('connect')
                continue
            if k == 'emit':
                ns = NSS[op['ns']]
                if ns not in model['accepted']:
                    bad_emit(ns, 'step %d' % step)
                    continue
                if op['kind'] == 'call':
                    continue
                h.take_outbox()
                if op['kind'] == 'emit':
                    h.do(sio.emit('x', op['data'], namespace=ns,
                                  callback=(lambda *a: None) if op['cb']
                                  else None))
                    name = 'x'
                else:
                    h.do(sio.send(op['data'], namespace=ns,
                                  callback=(lambda *a: None) if op['cb']
                                  else None))
                    name = 'message'
                pk = out_packets()
                if len(pk) != 1 or pk[0]['nsp'] != ns or not strict_eq(
                        pk[0]['data'], [name] + wire.pack_args(op['data'])) \
                        or (pk[0]['id'] is None) == op['cb']:
                    raise Violation('emit-frame', repr(pk))
                if op['cb']:
                    labels['callback_outstanding'] = True
                continue
            if not model['engine']:
                continue
            nlog = len(log)
            was = sorted(model['accepted'])
            if k == 'sdisc_overlap':
                ns = NSS[op['ns']]
                if ns not in model['accepted'] or model['partial'] or \
                        not aio:
                    continue
                from engineio import packet as ep
                yield_on[0] = True
                if op['how'] == 'close':
                    h.deliver_then_end(wire.frames(wire.DISCONNECT, ns),
                                       'close')
                else:
                    for f in wire.frames(wire.DISCONNECT, ns):
                        h.loop.spawn(h.eio._receive_packet(
                            ep.Packet(ep.MESSAGE, f)))
                    h.loop.step()
                    h.loop.step()
                    h.lose()
                h.loop.run_until_idle()
                yield_on[0] = False
                end_model()
                faulted[0] = True
                expect_disconnects(nlog, was, 'server DISCONNECT %s + %s'
                                   % (ns, op['how']))
                check_ended('after DISCONNECT + ' + op['how'])
                check_state('after DISCONNECT + ' + op['how'])
                labels['disconnect_packet_overlaps_the_end'] = True
                if case.get('disc_yields'):
                    labels['nontrivial'] = True
                probe(k)
                continue
            if k == 'sdisc_all_overlap':
                if model['partial'] or len(model['accepted']) < 2:
                    continue
                frames = []
                for ns in list(model['accepted']):
                    frames += wire.frames(wire.DISCONNECT, ns)
                if aio:
                    from engineio import packet as ep
                    yield_on[0] = True
                    for f in frames:
                        h.loop.spawn(h.eio._receive_packet(
                            ep.Packet(ep.MESSAGE, f)))
                    h.loop.run_until_idle()
                    yield_on[0] = False
                else:
                    nested_frames[:] = frames[1:]
                    h.deliver(frames[0])
                    for f in nested_frames[:]:
                        h.deliver(f)
                    del nested_frames[:]
                end_model()
                faulted[0] = True
                expect_disconnects(nlog, was, 'server DISCONNECT of every '
                                   'namespace, overlapping')
                check_ended('after overlapping server DISCONNECTs')
                check_state('after overlapping server DISCONNECTs')
                labels['server_disconnects_overlap'] = True
                labels['nontrivial'] = True
                probe(k)
                continue
            if k == 'sdisc_all':
                # the server ends every connected namespace, one by one
                if model['partial'] or not model['accepted']:
                    continue
                for ns in list(model['accepted']):
                    n1 = len(log)
                    for f in wire.frames(wire.DISCONNECT, ns):
                        h.deliver(f)
                    model['accepted'].pop(ns, None)
                    expect_disconnects(n1, [ns], 'server DISCONNECT %s' % ns)
                    check_state('after server DISCONNECT %s' % ns)
                end_model()
                faulted[0] = True
                check_ended('after the server ended every namespace')
                continue
            if k == 'sdisc':
                if model['partial']:
                    continue    # a server never interleaves text frames
                ns = NSS[op['ns']]
                if ns not in model['accepted']:
                    model['clean'] = False
                for f in wire.frames(wire.DISCONNECT, ns):
                    h.deliver(f)
                had = ns in model['accepted']
                model['accepted'].pop(ns, None)
                if had:
                    expect_disconnects(nlog, [ns], 'server DISCONNECT %s'
                                       % ns)
                    if not model['accepted']:
                        end_model()
                        check_ended('after last server DISCONNECT')
                    elif len(was) >= 2:
                        labels['nontrivial'] = True
                        labels['namespace_ended_others_live'] = True
                check_state('after server DISCONNECT %s' % ns)
            elif k == 'partial':
                ns = NSS[op['ns']]
                if ns in model['accepted'] and not model['partial']:
                    fr = wire.frames(wire.EVENT, ns, None, ['ev', b'x', b'y'])
                    h.deliver(fr[0])
                    h.deliver(fr[1])
                    model['partial'] = True
            elif k in ('disconnect', 'lose', 'close'):
                if model['partial']:
                    labels['nontrivial'] = True
                    labels['fault_mid_binary'] = True
                if k != 'disconnect':
                    faulted[0] = True
                h.take_outbox()
                if k == 'disconnect':
                    h.do(sio.disconnect())
                    pk = out_packets()
                    if sorted(
                            (p['type'], p['nsp']) for p in pk) != sorted(
                            (wire.DISCONNECT, n) for n in was):
                        raise Violation('disconnect-frames', repr(pk))
                elif k == 'lose':
                    if case.get('loss_app_disc') and was:
                        app_disc['on'], app_disc['done'] = True, False
                        h.lose()
                        app_disc['on'] = False
                        h.swallowed[:] = []
                        if app_disc['done']:
                            labels['application_disconnects_at_the_loss'] = \
                                case['loss_app_disc']
                            labels['nontrivial'] = True
                    else:
                        h.lose()
                else:
                    h.server_close()
                end_model()
                expect_disconnects(nlog, was, k)
                check_ended('after ' + k)
                check_state('after ' + k)
                # a text frame first thing on the next connection must be
                # decoded as a fresh packet: checked by the next connection
            probe(k)
    except _Stop:
        pass
    # the injected handler faults are the application's own
    h.bg_errors[:] = [e for e in h.bg_errors
                      if 'application connect handler fault' not in str(e)
                      and DISC_FAULT not in str(e)]
    if h.bg_errors:
        raise Violation('message-handler-raised', repr(h.bg_errors[0]))
    return labels


def classify(case, v):
    return v.kind
