"""C06 Server-initiated acks: callback at most once, only for the right
client and id."""
from hypothesis import strategies as st

from .. import strategies as S
from .. import wire
from ..case import strict_eq
from ..core import Violation
from ..world import World

PID = 'C06'
RULE = ('Generated histories of emit(to=sid, callback=cb_k) and call() to '
        'individual clients on 1-3 namespaces, interleaved with ACK / '
        'BINARY_ACK frames from any client carrying the outstanding id, an '
        'already used one, a never issued one (0, huge), or one outstanding '
        'for another client / for the same transport on another namespace, '
        'duplicate ACKs processed while the callback is still running, '
        'callbacks that raise (contained once, never re-invoked), emits '
        'with callback that cannot be sent (unencodable payload, failing '
        'transport send), a message-queue manager whose channel loops back '
        '(ids are issued in pairs there: an ACK with the id just below an '
        'outstanding one), acknowledgements (text or binary) on a namespace '
        'that their living transport has left or never joined, '
        'and with disconnects (3 kinds) and reconnects; for call(): generated '
        'orders of {right ACK, wrong ACK, client disconnect, timeout}, incl. '
        'the right ACK dispatched in the loop iteration in which the time-out '
        'fires (asyncio). '
        'Oracle (model of outstanding callbacks per sid): ids unique among a '
        "sid's outstanding callbacks; callback at most once, only for the "
        'addressed connection and id, with exactly the acknowledged args; '
        'every other ACK changes nothing and raises nothing (engine.io\'s '
        'contained-exception log is watched); call() result shaping / '
        'TimeoutError. Non-trivial: an ACK whose id is outstanding for a '
        'different client, or a repeated ACK, or a reconnect between emit '
        'and ACK.'
        ' A separate msgpack part sends ACKs whose id is the float / bool / list / map / string / negative form of an outstanding id: never issued, so ignored, without any error other than a rejection.'
        " Two further small parts: an ACK delivered from a second real thread while the callback of another ACK is still running (threaded server), and an ACK that arrives while its client's disconnect handler is running (never fires).")
ASSUMPTIONS = [
    'callbacks only on emits addressed to one client',
    'sync call(): the wait primitive is a harness event that pumps the '
    'generated deliveries instead of sleeping; asyncio call(): virtual time',
]
BUDGET = {'quick': 6000, 'thorough': 80000}
FLOOR = {'quick': 100, 'thorough': 4000}

NSS = ['/', '/x', '/y']
NEVER = [0, 10**6, 2**63, 10**30, 999]
FAULT = 'application callback fault'


def strategy(tier):
    big = tier == 'thorough'
    arg = S.tree_st(with_bytes=True, max_leaves=5)
    args = st.lists(arg, max_size=3)
    ci = st.integers(0, 7)
    sel = st.one_of(
        st.fixed_dictionaries({'kind': st.just('own'), 'j': ci}),
        st.fixed_dictionaries({'kind': st.just('own'), 'j': ci}),
        st.fixed_dictionaries({'kind': st.just('used'), 'j': ci}),
        st.fixed_dictionaries({'kind': st.just('used'), 'j': ci}),
        st.fixed_dictionaries({'kind': st.just('other'), 'j': ci}),
        st.fixed_dictionaries({'kind': st.just('never'), 'j': ci}),
        st.fixed_dictionaries({'kind': st.just('other'), 'j': ci}),
        # the number just below an outstanding id
        st.fixed_dictionaries({'kind': st.just('near'), 'j': ci}))
    during = st.lists(st.one_of(
        st.fixed_dictionaries({'a': st.just('ack_right'), 'args': args}),
        st.fixed_dictionaries({'a': st.just('ack_wrong'), 'args': args}),
        st.fixed_dictionaries({'a': st.just('disc')})), max_size=3)
    # asyncio: the right acknowledgement is dispatched in the very loop
    # iteration in which the time-out of call() fires
    at_expiry = st.one_of(st.none(), st.none(), st.lists(arg, max_size=2))
    op = st.one_of(
        st.fixed_dictionaries({'op': st.just('emit_cb'), 'c': ci,
                               'data': S.payload_st(max_leaves=4)}),
        st.fixed_dictionaries({'op': st.just('emit_cb'), 'c': ci,
                               'data': st.none()}),
        st.fixed_dictionaries({'op': st.just('emit_cb'), 'c': ci,
                               'data': st.sampled_from([0, '', b'x', ()])}),
        st.fixed_dictionaries({'op': st.just('emit_cb'), 'c': ci,
                               'data': st.just('d')}),
        # an emit with callback that cannot be delivered: the payload cannot
        # be encoded, or the transport's send raises
        st.fixed_dictionaries({'op': st.just('emit_fail'), 'c': ci,
                               'why': st.sampled_from(['unencodable',
                                                       'send'])}),
        st.fixed_dictionaries({'op': st.just('ack'), 'c': ci, 'sel': sel,
                               'args': args, 'dup': st.booleans(),
                               'raises': st.just(False)}),
        st.fixed_dictionaries({'op': st.just('ack'), 'c': ci, 'sel': sel,
                               'args': args, 'dup': st.booleans(),
                               'raises': st.booleans()}),
        st.fixed_dictionaries({'op': st.just('end'), 'c': ci,
                               'how': st.sampled_from(['cdisc', 'sdisc',
                                                       'lose'])}),
        st.fixed_dictionaries({'op': st.just('reconnect'), 'j': ci}),
        # an acknowledgement (text or with attachments) on a namespace that
        # its transport has left, or never joined, while the transport lives
        st.fixed_dictionaries({'op': st.just('late_ack'), 'j': ci,
                               'pid': st.sampled_from([0, 1, 2, 3, 7]),
                               'args': args, 'binary': st.booleans()}),
        st.fixed_dictionaries({'op': st.just('call'), 'c': ci,
                               'timeout': st.sampled_from([0.5, 1, 60]),
                               'data': S.payload_st(max_leaves=3),
                               'during': during,
                               'at_expiry': at_expiry}),
    )
    # msgpack servers: the id of an ACK is whatever the client packed - ids
    # that merely compare equal to an outstanding one (1.0, true), contain
    # it, or cannot be looked up at all were never issued
    odd = st.fixed_dictionaries({
        'part': st.just('odd_id'), 'aio': st.booleans(),
        'n_emits': st.integers(1, 3),
        'ids': st.lists(st.sampled_from(['float', 'bool', 'list', 'dict',
                                         'str', 'none', 'neg', 'bytes']),
                        min_size=1, max_size=4),
        'args': st.lists(st.sampled_from(['x', 1, None, True, 2.5, '']),
                         max_size=2)})
    # threaded server: the acknowledgement of one client is processed while
    # the application's callback for another client is still running (each
    # connection has a thread of its own)
    blocked = st.fixed_dictionaries({
        'part': st.just('blocked_cb'),
        'same_client': st.booleans(),
        'args': st.lists(st.sampled_from(['x', 1, None, True]), max_size=2)})
    # the client's acknowledgement arrives while its disconnect is being
    # reported to the application (the handler is still running): the
    # client has disconnected, its callbacks are not invoked any more
    late = st.fixed_dictionaries({
        'part': st.just('ack_in_disc'), 'aio': st.booleans(),
        # ('lose2': the transport, which carries a second namespace, is
        # lost; the handler of the first namespace is still running when
        # the ACK for the other one is dispatched)
        'how': st.sampled_from(['cdisc', 'sdisc', 'lose2']),
        'binary': st.booleans(),
        'args': st.lists(st.sampled_from(['x', 1, None, True]), max_size=2)})
    return st.one_of(*([_main_strategy(big, op)] * 10 +
                       [odd, odd, blocked, late, late]))


def _main_strategy(big, op):
    return st.fixed_dictionaries({
        'aio': st.booleans(),
        'coro_cb': st.booleans(),
        # the client manager: the default one, or a message-queue manager
        # (its channel carries this host's own messages back to it)
        'manager': st.sampled_from(['plain', 'plain', 'queue']),
        'init': st.lists(st.tuples(st.integers(0, 2), st.integers(0, 2)),
                         min_size=2, max_size=5),
        'ops': st.lists(op, min_size=3, max_size=60 if big else 30)})


KNOWN = set()
KF_FORGED = 'forged-ack-fires-queue-manager-callback'


def _odd_ids(case):
    import msgpack
    w = World(aio=case['aio'], namespaces=NSS, serializer='msgpack')
    try:
        sio = w.sio
        labels = {'part': 'odd_id', 'aio': case['aio'], 'nontrivial': True}
        t = w.open()
        ci, _ = w.connect(t, '/')
        c = w.clients[ci]
        fired = []
        ids = []
        for n in range(case['n_emits']):
            w.recv_all()
            w.do(sio.emit('ev', n, to=c['sid'], namespace='/',
                          callback=lambda *a, n=n: fired.append((n, a))))
            pk = w.recv(t)
            if len(pk) != 1 or type(pk[0]['id']) is not int:
                raise Violation('emit-frame', repr(pk))
            ids.append(pk[0]['id'])
        for kind in case['ids']:
            real = ids[0]
            odd = {'float': float(real), 'bool': bool(real),
                   'list': [real], 'dict': {'id': real}, 'str': str(real),
                   'none': None, 'neg': -real, 'bytes': bytes([real % 256])
                   }[kind]
            if odd == real and type(odd) is int:
                continue
            w.h.swallowed[:] = []
            w.send_raw(t, msgpack.dumps({'type': 3, 'nsp': '/', 'id': odd,
                                         'data': ['forged'] +
                                         list(case['args'])}))
            w.h.settle()
            if fired:
                raise Violation('callback-for-id-never-issued',
                                'an ACK with the id %r (%s) invoked the '
                                'callback issued under id %r: %r'
                                % (odd, type(odd).__name__, real, fired))
            # ("ignored without error": not rejected with an exception that
            # engine.io has to contain either)
            bad = [e for m_, e in w.h.swallowed]
            if bad:
                raise Violation('ack-raised', 'an ACK with the id %r (%s) '
                                'is not ignored: %r' % (odd, type(
                                    odd).__name__, bad[0]))
            w.h.swallowed[:] = []
            if w.recv_all().get(t):
                raise Violation('ack-caused-traffic', kind)
            labels['odd_id_' + kind] = True
        for n, i in enumerate(ids):
            w.send(t, wire.ACK, '/', i, ['real', n])
        w.h.settle()
        if fired != [(n, ('real', n)) for n in range(len(ids))]:
            raise Violation('callback-missing', 'after ACKs with ids that '
                            'were never issued, the real ones gave %r'
                            % (fired,))
        return labels
    finally:
        w.close()


def _blocked_cb(case):
    import threading
    w = World(aio=False, namespaces=NSS)
    try:
        sio = w.sio
        labels = {'part': 'blocked_cb', 'aio': False, 'nontrivial': True}
        ta, tb = w.open(), w.open()
        ca, _ = w.connect(ta, '/')
        cb_, _ = w.connect(tb if not case['same_client'] else ta,
                           '/' if not case['same_client'] else '/x')
        A, B = w.clients[ca], w.clients[cb_]
        gate = threading.Event()
        entered = threading.Event()
        fired = []

        def slow(*a):
            entered.set()
            gate.wait(20)
            fired.append(('A', a))

        def quick(*a):
            fired.append(('B', a))
        w.recv_all()
        sio.emit('ev', 1, to=A['sid'], namespace=A['ns'], callback=slow)
        ida = w.recv(A['t'])[0]['id']
        sio.emit('ev', 2, to=B['sid'], namespace=B['ns'], callback=quick)
        idb = [p for p in w.recv(B['t'])][0]['id']
        t1 = threading.Thread(target=lambda: w.send(
            A['t'], wire.ACK, A['ns'], ida, ['slow']), daemon=True)
        t1.start()
        if not entered.wait(10):
            raise Violation('callback-missing', 'the first callback never '
                            'started')
        t2 = threading.Thread(target=lambda: w.send(
            B['t'], wire.ACK, B['ns'], idb, list(case['args'])),
            daemon=True)
        t2.start()
        t2.join(10)
        stuck = t2.is_alive() or ('B', tuple(case['args'])) not in fired
        gate.set()
        t1.join(10)
        t2.join(10)
        if stuck:
            raise Violation('ack-blocked-while-callback-runs',
                            'while the callback for %s was still running, '
                            'the acknowledgement of %s (another thread) was '
                            'not processed: %r' % (A['sid'], B['sid'], fired))
        if sorted(fired, key=repr) != sorted(
                [('A', ('slow',)), ('B', tuple(case['args']))], key=repr):
            raise Violation('callback-args', repr(fired))
        return labels
    finally:
        w.close()


def _ack_in_disc(case):
    aio = case['aio']
    w = World(aio=aio, namespaces=NSS)
    try:
        sio = w.sio
        labels = {'part': 'ack_in_disc', 'aio': aio, 'nontrivial': True}
        t = w.open()
        ci, _ = w.connect(t, '/')
        c = w.clients[ci]
        fired = []
        state = {'frames': None, 'gate': None, 'ran': 0}
        if aio:
            async def on_disc(sid, reason):
                state['ran'] += 1
                state['gate'] = w.h.loop.create_future()
                await state['gate']
        else:
            def on_disc(sid, reason):
                state['ran'] += 1
                for f in state['frames']:       # "another thread"
                    w.h.feed(w.t[t], f, settle=False)
        sio.on('disconnect', on_disc, namespace='/')
        target, tns = c, '/'
        if case['how'] == 'lose2':
            if not aio:
                return labels       # (needs a suspended handler)
            sio.on('disconnect', lambda sid, reason: None, namespace='/x')
            cx, _ = w.connect(t, '/x')
            target, tns = w.clients[cx], '/x'
        w.recv_all()
        w.do(sio.emit('ev', 1, to=target['sid'], namespace=tns,
                      callback=lambda *a: fired.append(a)))
        pid = w.recv(t)[0]['id']
        args = list(case['args']) + ([b'bin'] if case['binary'] else [])
        state['frames'] = wire.frames(wire.ACK, tns, pid, args)
        if aio:
            P = w.h.eio_packet
            sock = w.h.eio.sockets[w.t[t]]
            if case['how'] == 'cdisc':
                task = w.h.loop.spawn(sock.receive(P.Packet(P.MESSAGE, '1')))
            elif case['how'] == 'lose2':
                task = w.h.loop.spawn(sock.close(
                    wait=False, abort=True,
                    reason=w.h.reason.TRANSPORT_ERROR))
            else:
                task = w.h.loop.spawn(sio.disconnect(c['sid'],
                                                     namespace='/'))
            w.h.loop.run_until_idle()
            if state['gate'] is None:
                raise Violation('disconnect-handler-missing', '')
            for f in state['frames']:
                w.h.loop.spawn(sock.receive(P.Packet(P.MESSAGE, f)))
            w.h.loop.run_until_idle()
            early = list(fired)
            state['gate'].set_result(None)
            w.h.loop.run_until_idle()
            if not task.done() or task.exception() is not None:
                raise Violation('disconnect-failed', repr(task))
        else:
            if case['how'] == 'cdisc':
                w.send(t, wire.DISCONNECT, '/')
            else:
                w.do(sio.disconnect(c['sid'], namespace='/'))
            early = list(fired)
        w.h.settle()
        w.h.swallowed[:] = []
        if state['ran'] != 1:
            raise Violation('disconnect-handler-count', str(state['ran']))
        if fired:
            raise Violation('callback-after-disconnect',
                            'the client had disconnected (%s, its disconnect '
                            'handler was running) when its ACK arrived: the '
                            'callback was invoked with %r'
                            % (case['how'], fired))
        # ... and not afterwards either
        for f in state['frames']:
            if case['how'] != 'lose2':
                w.send_raw(t, f)
        w.h.settle()
        if fired:
            raise Violation('callback-after-disconnect', repr(fired))
        return labels
    finally:
        w.close()


def check_case(case):
    if case.get('part') == 'ack_in_disc':
        return _ack_in_disc(case)
    if case.get('part') == 'blocked_cb':
        return _blocked_cb(case)
    if case.get('part') == 'odd_id':
        return _odd_ids(case)
    extra = {}
    if case.get('manager') == 'queue':
        from .. import core
        core.bootstrap()
        from socketio.async_pubsub_manager import AsyncPubSubManager
        from socketio.pubsub_manager import PubSubManager
        import socketio
        base = AsyncPubSubManager if case['aio'] else PubSubManager
        plain = socketio.AsyncManager if case['aio'] else socketio.Manager

        class LoopbackManager(base):
            def initialize(self):
                plain.initialize(self)      # (no listener task / thread)
            if case['aio']:
                async def _publish(self, data):
                    if data.get('method') == 'callback':
                        await self._handle_callback(data)
            else:
                def _publish(self, data):
                    if data.get('method') == 'callback':
                        self._handle_callback(data)
        extra['client_manager'] = LoopbackManager()
    w = World(aio=case['aio'], namespaces=NSS, **extra)
    try:
        return _run(case, w)
    finally:
        w.close()


def _shape(args):
    if len(args) == 0:
        return None
    if len(args) == 1:
        return args[0]
    return tuple(args)


def _run(case, w):
    import socketio
    sio = w.sio
    aio = case['aio']
    for n in NSS:
        sio.on('connect', (lambda sid, environ, auth=None: None), namespace=n)
    for _ in range(3):
        w.open()
    for t, n in case['init']:
        if w.client_on(t, NSS[n]) is None:
            w.connect(t, NSS[n])
    cb_log = []
    queue = case.get('manager') == 'queue'
    outstanding = {}     # client index -> {id: k}
    used = {}            # client index -> [ids]
    expect_cb = []       # (k, args) in order
    kctr = [0]
    labels = {'aio': aio, 'nontrivial': False}
    reconnected_since_emit = set()

    during_cb = {}      # k -> what happens while callback k is running
    cb_raises = set()   # callbacks that raise (application fault)
    faults_seen = [0]
    gates = {}          # k -> future the coroutine callback k waits for

    def mk_cb(k):
        if aio and case.get('coro_cb'):
            async def cb(*args):
                cb_log.append((k, list(args)))
                if k in during_cb:
                    # suspended: the harness delivers a duplicate ACK now
                    fut = w.h.loop.create_future()
                    gates.setdefault(k, []).append(fut)
                    await fut
                if k in cb_raises:
                    raise RuntimeError(FAULT)
        else:
            def cb(*args):
                cb_log.append((k, list(args)))
                fn = during_cb.pop(k, None)
                if fn is not None and not aio:
                    fn()        # re-entrant delivery (another thread)
                if k in cb_raises:
                    raise RuntimeError(FAULT)
        return cb

    def check_quiet(step, what):
        # a raising callback is the application's fault: engine.io contains
        # and logs it, once per invocation of that callback
        mine = [e for e in w.h.swallowed
                if isinstance(e[1], RuntimeError) and str(e[1]) == FAULT]
        w.h.swallowed[:] = [e for e in w.h.swallowed if e not in mine]
        faults_seen[0] += len(mine)
        n_exp_f = len([k_ for k_, _ in cb_log if k_ in cb_raises])
        if faults_seen[0] != n_exp_f:
            raise Violation('callback-fault-accounting', 'step %d (%s): %d '
                            'contained callback faults, %d raising callback '
                            'invocations' % (step, what, faults_seen[0],
                                             n_exp_f))
        if w.h.swallowed:
            raise Violation('error-on-ack', 'step %d (%s): engine.io '
                            'contained %r' % (step, what, w.h.swallowed[0]))
        if len(cb_log) != len(expect_cb) or not all(
                a[0] == b[0] and strict_eq(a[1], b[1])
                for a, b in zip(cb_log, expect_cb)):
            n_exp = [k for k, _ in expect_cb]
            n_got = [k for k, _ in cb_log]
            if len(n_got) != len(set(n_got)):
                kind = 'callback-twice'
            elif set(n_got) - set(n_exp):
                kind = 'callback-unexpected'
            elif set(n_exp) - set(n_got):
                kind = 'callback-missing'
            else:
                kind = 'callback-args'
            raise Violation(kind, 'step %d (%s): callbacks %r expected %r'
                            % (step, what, cb_log[-3:], expect_cb[-3:]))

    def end_client(ci, how):
        c = w.clients[ci]
        if how == 'cdisc':
            w.send(c['t'], wire.DISCONNECT, c['ns'])
            w.mark_dead(ci)
            outstanding.pop(ci, None)
        elif how == 'sdisc':
            w.do(sio.disconnect(c['sid'], namespace=c['ns']))
            w.mark_dead(ci)
            outstanding.pop(ci, None)
            w.recv(c['t'])
        else:
            for i, c2 in enumerate(w.clients):
                if c2['t'] == c['t']:
                    outstanding.pop(i, None)
            w.lose(c['t'])

    leaked = {}     # client -> ids issued to emits that were never sent
    last_id = {}    # client -> last id seen on the wire / issued

    def pick_id(ci, sel):
        kind, j = sel['kind'], sel['j']
        own = outstanding.get(ci, {})
        if kind == 'own' and own:
            ids = sorted(own)
            return ids[j % len(ids)], 'own'
        # ids issued to emits that were never sent are not "foreign" ids
        out = set(own) | set(leaked.get(ci, ()))
        if kind == 'used' and used.get(ci):
            cand = [i for i in used[ci] if i not in out]
            if cand:
                return cand[j % len(cand)], 'used'
        if kind == 'other':
            cand = sorted({i for c2, o in outstanding.items() if c2 != ci
                           for i in o if i not in out})
            if cand:
                return cand[j % len(cand)], 'other'
        if kind == 'near' and own:
            i = min(own) - 1
            if i >= 0 and i not in out and i not in used.get(ci, ()):
                return i, 'near'
        cand = [i for i in NEVER if i not in out]
        return cand[j % len(cand)], 'never'

    for step, op in enumerate(case['ops']):
        k = op['op']
        lv = w.live()
        if k == 'reconnect':
            dead = [c for c in w.clients if not c['alive']]
            if dead:
                c = dead[op['j'] % len(dead)]
                t = c['t']
                if not w.t_alive[t]:
                    t = w.open()
                if w.client_on(t, c['ns']) is None:
                    ci, _ = w.connect(t, c['ns'])
                    if ci is None:
                        raise Violation('reconnect-refused', '')
                    reconnected_since_emit.add((t, c['ns']))
            continue
        if k == 'late_ack':
            slots = [(t, n) for t in range(len(w.t)) if w.t_alive[t]
                     for n in NSS if w.client_on(t, n) is None]
            if not slots:
                continue
            t, n = slots[op['j'] % len(slots)]
            left = any(c2['t'] == t and c2['ns'] == n for c2 in w.clients)
            w.recv_all()
            w.send(t, wire.ACK, n, op['pid'], list(op['args']) + (
                [b'late'] if op['binary'] else []))
            labels['ack_on_left_namespace' if left
                   else 'ack_on_namespace_never_joined'] = True
            if any(outstanding.get(i) for i in lv):
                labels['nontrivial'] = True
            check_quiet(step, 'late_ack')
            for t2, pkts in w.recv_all().items():
                if pkts:
                    raise Violation('ack-caused-traffic', repr(pkts))
            continue
        if not lv:
            continue
        ci = lv[op['c'] % len(lv)]
        c = w.clients[ci]
        if k == 'emit_cb':
            kctr[0] += 1
            kk = kctr[0]
            w.recv_all()
            w.do(sio.emit('ev', op['data'], to=c['sid'], namespace=c['ns'],
                          callback=mk_cb(kk)))
            got = w.recv_all()
            for t, pkts in got.items():
                if t != c['t'] and pkts:
                    raise Violation('emit-to-wrong-transport', repr(pkts))
            pkts = got[c['t']]
            if len(pkts) != 1 or pkts[0]['type'] not in (
                    wire.EVENT, wire.BINARY_EVENT) or \
                    pkts[0]['nsp'] != c['ns']:
                raise Violation('emit-frame', repr(pkts))
            pid = pkts[0]['id']
            if type(pid) is not int:
                raise Violation('emit-without-id', repr(pkts))
            if not strict_eq(pkts[0]['data'],
                             ['ev'] + wire.pack_args(op['data'])):
                raise Violation('emit-payload', repr(pkts))
            if pid in outstanding.get(ci, {}):
                raise Violation('ack-id-not-unique',
                                'id %r already outstanding for client %d'
                                % (pid, ci))
            outstanding.setdefault(ci, {})[pid] = kk
            last_id[ci] = pid
            reconnected_since_emit.discard((c['t'], c['ns']))
            check_quiet(step, 'emit_cb')
        elif k == 'emit_fail':
            if queue:
                continue    # (ids are issued in pairs there)
            w.recv_all()
            real_send = sio.eio.send
            if op['why'] == 'send':
                def failing(*a, **kw):
                    raise OSError('transport send failed')
                if aio:
                    async def afailing(*a, **kw):
                        raise OSError('transport send failed')
                    sio.eio.send = afailing
                    real_sp = sio.eio.send_packet
                    sio.eio.send_packet = afailing
                else:
                    sio.eio.send = failing
                data = 'x'
            else:
                data = {1, 2}       # json cannot encode a set
            try:
                w.do(sio.emit('ev', data, to=c['sid'], namespace=c['ns'],
                              callback=lambda *a: cb_log.append(
                                  ('never-sent', a))))
            except (TypeError, OSError):
                pass        # the application is told; nothing else changes
            finally:
                sio.eio.send = real_send
                if op['why'] == 'send' and aio:
                    sio.eio.send_packet = real_sp
            w.h.swallowed[:] = []
            if hasattr(w.h, 'bg_errors'):
                w.h.bg_errors[:] = []
            for t, pkts in w.recv_all().items():
                if pkts:
                    raise Violation('failed-emit-sent-something', repr(pkts))
            # its id was issued: the next one on the wire is one further
            if ci in last_id:
                leaked.setdefault(ci, set()).add(last_id[ci] + 1)
                last_id[ci] += 1
            else:
                leaked.setdefault(ci, set()).add(1)
                last_id[ci] = 1
            labels['emit_failed'] = True
            labels['nontrivial'] = True
            check_quiet(step, 'emit_fail')
        elif k == 'ack':
            pid, kind = pick_id(ci, op['sel'])
            kk = None
            if kind == 'own':
                kk = outstanding[ci].pop(pid)
                used.setdefault(ci, []).append(pid)
                if kk is not None:      # None: a timed-out call()'s closure
                    expect_cb.append((kk, list(op['args'])))
            dup = op.get('dup') and kind == 'own' and kk is not None
            if op.get('raises') and kind == 'own' and kk is not None:
                cb_raises.add(kk)
                labels['callback_raises'] = True
            if dup and aio and case.get('coro_cb'):
                # the first ACK parks in the coroutine callback; a duplicate
                # of it is processed meanwhile; then the callback finishes
                during_cb[kk] = True
                sock = w.h.eio.sockets[w.t[c['t']]]
                fr = wire.frames(wire.ACK, c['ns'], pid, list(op['args']))
                tasks = []
                for f in fr:
                    tasks.append(w.h.loop.spawn(sock.receive(
                        w.h.eio_packet.Packet(w.h.eio_packet.MESSAGE, f))))
                    w.h.loop.run_until_idle()
                for f in fr:     # the duplicate
                    tasks.append(w.h.loop.spawn(sock.receive(
                        w.h.eio_packet.Packet(w.h.eio_packet.MESSAGE, f))))
                    w.h.loop.run_until_idle()
                during_cb.pop(kk, None)
                for fut in gates.pop(kk, []):
                    fut.set_result(None)
                w.h.loop.run_until_idle()
                if any(not t_.done() for t_ in tasks):
                    raise Violation('ack-never-finishes', '')
                labels['dup_ack_during_callback'] = True
                labels['nontrivial'] = True
            elif dup and not aio:
                during_cb[kk] = lambda: w.send(c['t'], wire.ACK, c['ns'],
                                               pid, list(op['args']))
                w.send(c['t'], wire.ACK, c['ns'], pid, list(op['args']))
                labels['dup_ack_during_callback'] = True
                labels['nontrivial'] = True
            else:
                w.send(c['t'], wire.ACK, c['ns'], pid, list(op['args']))
            labels['ack_' + kind] = True
            if kind in ('other', 'used'):
                labels['nontrivial'] = True
            if (c['t'], c['ns']) in reconnected_since_emit:
                labels['nontrivial'] = True
                labels['ack_after_reconnect'] = True
            try:
                check_quiet(step, 'ack %s id=%r' % (kind, pid))
            except Violation as v:
                if queue and kind == 'near' and v.kind.startswith(
                        'callback'):
                    det = ('message-queue manager: the event went out with '
                           'ack id %d; an ACK with the id %d, which was '
                           'never on the wire, invoked the callback (%s)'
                           % (pid + 1, pid, v.detail[:120]))
                    if KF_FORGED in KNOWN:
                        labels['kf:' + KF_FORGED] = True
                        return labels
                    raise Violation(KF_FORGED, det)
                raise
            for t, pkts in w.recv_all().items():
                if pkts:
                    raise Violation('ack-caused-traffic', repr(pkts))
        elif k == 'end':
            end_client(ci, op['how'])
            check_quiet(step, 'end')
        elif k == 'call':
            w.recv_all()
            state = {'id': None, 'result': None, 'have': False,
                     'alive': True}

            def actions():
                pkts = w.recv(c['t'])
                if len(pkts) != 1 or type(pkts[0]['id']) is not int:
                    raise Violation('call-frame', repr(pkts))
                state['id'] = pkts[0]['id']
                last_id[ci] = state['id']
                if state['id'] in outstanding.get(ci, {}):
                    raise Violation('ack-id-not-unique', 'call id %r'
                                    % state['id'])
                for a in op['during']:
                    if a['a'] == 'ack_right':
                        if state['alive']:
                            w.send(c['t'], wire.ACK, c['ns'], state['id'],
                                   list(a['args']))
                            if not state['have']:
                                state['have'] = True
                                state['result'] = _shape(list(a['args']))
                        labels['call_acked'] = True
                    elif a['a'] == 'ack_wrong':
                        if state['alive']:
                            w.send(c['t'], wire.ACK, c['ns'],
                                   state['id'] + 1000, list(a['args']))
                    else:
                        if state['alive']:
                            w.send(c['t'], wire.DISCONNECT, c['ns'])
                            w.mark_dead(ci)
                            outstanding.pop(ci, None)
                            state['alive'] = False
                            labels['call_disconnected'] = True
            err = None
            res = None
            if aio:
                task = w.h.loop.spawn(sio.call(
                    'ev', op['data'], to=c['sid'], namespace=c['ns'],
                    timeout=op['timeout']))
                w.h.loop.run_until_idle()
                actions()
                w.h.loop.run_until_idle()
                t0 = w.h.loop.time()
                if op.get('at_expiry') is not None and not task.done() \
                        and state['alive'] and not state['have']:
                    sock = w.h.eio.sockets[w.t[c['t']]]
                    for f in wire.frames(wire.ACK, c['ns'], state['id'],
                                         list(op['at_expiry'])):
                        w.h.loop.spawn(sock.receive(w.h.eio_packet.Packet(
                            w.h.eio_packet.MESSAGE, f)))
                    state['have'] = True
                    state['result'] = _shape(list(op['at_expiry']))
                    labels['ack_at_the_instant_of_expiry'] = True
                    labels['nontrivial'] = True
                while not task.done():
                    if not w.h.loop.advance():
                        raise Violation('call-never-returns', '')
                waited = w.h.loop.time() - t0
                if task.exception() is not None:
                    err = task.exception()
                else:
                    res = task.result()
                if not state['have'] and abs(waited - op['timeout']) > 1e-6:
                    raise Violation('call-timeout-value',
                                    'waited %r, timeout %r'
                                    % (waited, op['timeout']))
            else:
                w.h.waits.clear()
                w.h.on_wait = lambda ev, timeout: actions()
                try:
                    res = sio.call('ev', op['data'], to=c['sid'],
                                   namespace=c['ns'], timeout=op['timeout'])
                except socketio.exceptions.TimeoutError as e:
                    err = e
                finally:
                    w.h.on_wait = None
                if w.h.waits != [op['timeout']]:
                    raise Violation('call-timeout-value', 'waits %r'
                                    % (w.h.waits,))
            if state['have']:
                if err is not None:
                    raise Violation('call-raised-despite-ack', repr(err))
                if not strict_eq(res, state['result']):
                    raise Violation('call-result', '%r != %r'
                                    % (res, state['result']))
            else:
                if not isinstance(err, socketio.exceptions.TimeoutError):
                    raise Violation('call-no-timeout', 'result %r error %r'
                                    % (res, err))
                labels['call_timeout'] = True
            # an unanswered call leaves its callback outstanding; it is the
            # library's own closure, so nothing to track but the id
            if not state['have'] and state['alive']:
                outstanding.setdefault(ci, {})[state['id']] = None
            elif state['have']:
                used.setdefault(ci, []).append(state['id'])
            check_quiet(step, 'call')
    return labels


def classify(case, v):
    if v.kind.startswith('exception-TypeError') and 'count' in str(v.detail):
        return 'ack-id-0-destroys-counter'
    if v.kind.startswith('exception-KeyError@base_manager.py:_generate_ack'):
        return 'ack-id-0-destroys-counter'
    if v.kind == 'error-on-ack' and "'itertools.count' object is not " \
            "callable" in str(v.detail):
        return 'ack-id-0-destroys-counter'
    return v.kind
