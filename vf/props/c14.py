"""C14 The asyncio classes behave exactly like their threaded counterparts."""
from hypothesis import strategies as st

from .. import scenario
from ..case import strict_eq
from ..core import Violation

PID = 'C14'
RULE = ('Differential testing: Hypothesis-generated scripted scenarios '
        '(families: server = connects incl. refused/unserved, events valid '
        'and on unconnected namespaces, ACKs, emits to rooms/sids with '
        'skip_sid and callbacks, call(), room and session API calls, '
        'disconnects of all kinds, transport losses, malformed frames; '
        'client = connect with scripted answers, server events / ACKs / '
        'DISCONNECT / CONNECT_ERROR / malformed frames, emit/send/call, '
        'disconnect, transport loss, server CLOSE, reconnection; pubsub = '
        'cluster histories with immediate consumption; simple = sequential '
        'SimpleClient scripts) are executed once against the threaded class '
        'and once against the asyncio class (handlers inline or background '
        'tasks joined FIFO, coroutine or plain handlers on the asyncio side) '
        'and the traces - per-peer ordered frames, published messages, '
        'handler and callback invocations with arguments, API results or '
        'exception types, rooms after every step - must be equal after '
        'renaming ids by order of first appearance. Non-trivial: the '
        'scenario exercises >=3 distinct API entry points and one fault or '
        'malformed frame.'
        ' The client scenarios include life-cycle handlers (connect_error, disconnect) that fail for chosen namespaces.')
ASSUMPTIONS = [
    'background handlers are joined FIFO on both sides before comparison',
    'exception *types* are compared, not messages',
]
BUDGET = {'quick': 5000, 'thorough': 80000}
FLOOR = {'quick': 100, 'thorough': 5000}

FAMILIES = ['server']


def strategy(tier):
    fams = []
    fams.append(st.fixed_dictionaries({
        'family': st.just('server'), 'coro': st.booleans(),
        'sc': scenario.server_scenario_st(tier)}))
    from . import c14_client
    fams.append(c14_client.strategy(tier))
    from . import c14_pubsub
    fams.append(c14_pubsub.strategy(tier))
    from . import c14_simple
    fams.append(c14_simple.strategy(tier))
    return st.one_of(fams)


def _first_diff(a, b):
    for i, (x, y) in enumerate(zip(a, b)):
        if not strict_eq(_l(x), _l(y)):
            return i, x, y
    if len(a) != len(b):
        i = min(len(a), len(b))
        return i, (a[i] if i < len(a) else '<end>'), \
            (b[i] if i < len(b) else '<end>')
    return None


def _l(v):
    if isinstance(v, tuple):
        return [_l(x) for x in v]
    if isinstance(v, list):
        return [_l(x) for x in v]
    if isinstance(v, dict):
        return {k: _l(x) for k, x in v.items()}
    return v


def check_case(case):
    fam = case['family']
    if fam == 'server':
        ta, la = scenario.run_server_scenario(case['sc'], aio=False)
        tb, lb = scenario.run_server_scenario(case['sc'], aio=True,
                                              coro=case['coro'])
    elif fam == 'client':
        from . import c14_client
        ta, la = c14_client.run(case, aio=False)
        tb, lb = c14_client.run(case, aio=True)
    elif fam == 'pubsub':
        from . import c14_pubsub
        ta, la = c14_pubsub.run(case, aio=False)
        tb, lb = c14_pubsub.run(case, aio=True)
    else:
        from . import c14_simple
        ta, la = c14_simple.run(case, aio=False)
        tb, lb = c14_simple.run(case, aio=True)
    d = _first_diff(ta, tb)
    if d is not None:
        i, x, y = d
        kind = 'trace-differs:' + fam
        raise Violation(kind, 'entry %d: threaded %r / asyncio %r '
                        '(previous: %r)' % (i, x, y, ta[max(0, i - 2):i]))
    return {'family': fam,
            'nontrivial': la.get('entry_points', 0) >= 3 and
            la.get('faults', 0) >= 1,
            'entry_points': min(la.get('entry_points', 0), 8)}


def classify(case, v):
    return v.kind
