"""C01 Packet codec: round trip and Socket.IO v5 wire conformance."""
from hypothesis import strategies as st

from .. import refcodec
from .. import strategies as S
from ..case import strict_eq
from ..core import Violation

PID = 'C01'
RULE = ('Hypothesis-generated packets (type 0..6 - binary types reached by '
        'promotion of EVENT/ACK with bytes, or given explicitly without '
        'bytes -, namespace None|"/"|"/"+text without ",", id None|0..10**100'
        '-1, JSON+bytes payload trees) checked with four oracles: round trip '
        'through Packet.encode/decode/add_attachment, conformance of the '
        'frame against an independent spec-derived codec, reverse '
        'interoperation (reference encoder with other legal JSON escaping / '
        'whitespace choices -> Packet decode), binary admission; encode() '
        'of one packet object is repeatable, also after another packet '
        'failed to encode (set / object / tuple-key / raw bytes payload), '
        'and after an earlier binary packet of the same type and namespace '
        'with another number of attachments; the '
        'packet object that '
        'decoding + add_attachment produced re-encodes to the prescribed '
        'frames (relaying). '
        'Non-trivial: >=2 header fields besides the type (attachments, '
        'non-default namespace, id), or a bytes leaf below depth 1, or a '
        'top-level scalar payload adjacent to the header. Distinct = distinct '
        'canonical JSON of the case.'
        ' Two packets decoded from the same frames are also reassembled alternately, behind a third one given up half-way.'
        ' A binary packet object that was encoded and then given another payload (one more attachment, in front or at the end) encodes to the frames of a fresh packet with that payload.')
ASSUMPTIONS = [
    'bare top-level numeric payloads that start with a digit (only '
    'possible for CONNECT/DISCONNECT/CONNECT_ERROR) are inherently ambiguous '
    'in the v5 header grammar (they continue the id); for them only the '
    'encoder side is judged. Negative ones are not ambiguous and are judged',
    'JSON integers are kept below 100 characters (documented decoder guard)',
    'the reserved key "_placeholder" is never generated',
    'explicit BINARY_EVENT/BINARY_ACK packets are built without bytes (every '
    'caller reaches the binary types by promotion)',
]
BUDGET = {'quick': 12000, 'thorough': 400000}
FLOOR = {'quick': 500, 'thorough': 20000}
WALL_CAP = {'quick': 200, 'thorough': 2400}


def strategy(tier):
    big = tier == 'thorough'
    leaves = 40 if big else 12
    tree = S.tree_st(with_bytes=True, max_leaves=leaves)
    tree_nb = S.tree_st(with_bytes=False, max_leaves=leaves)
    ev_payload = st.tuples(S.event_name_st(),
                           st.lists(tree, max_size=6 if big else 4)).map(
        lambda t: [t[0]] + t[1])
    ack_payload = st.lists(tree, max_size=6 if big else 4)
    other_payload = st.one_of(st.none(), tree, tree_nb)

    def mk(ptype):
        if ptype == 2:
            data = ev_payload
        elif ptype == 3:
            data = ack_payload
        elif ptype == 5:
            data = st.tuples(S.event_name_st(),
                             st.lists(tree_nb, max_size=4)).map(
                lambda t: [t[0]] + t[1])
        elif ptype == 6:
            data = st.lists(tree_nb, max_size=4)
        else:
            data = other_payload
        return S.fdict({
            'type': st.just(ptype), 'nsp': S.namespace_st(),
            'id': S.ack_id_st(), 'data': data,
            'choice': st.integers(0, 7), 'ws': st.sampled_from(['', ' ', '\n\t']),
            # what the application tried to send, in vain, before
            'prior': st.sampled_from(['set', 'object', 'key', 'bytes'])})
    return st.sampled_from([0, 1, 2, 2, 2, 3, 3, 4, 5, 6]).flatmap(mk)


def _norm_ns(n):
    if n is None:
        return '/'
    q = n.find('?')
    if q != -1:
        n = n[:q]
    return n


def _bare_number(v):
    # (a negative number starts with '-', which cannot continue an id)
    return type(v) in (int, float) and not (
        v < 0 or (type(v) is float and str(v).startswith('-')))


def check_case(case):
    from socketio import packet as P
    ptype, nsp, pid, data = case['type'], case['nsp'], case['id'], case['data']
    has_bytes = S.contains_bytes(data)
    labels = {'type': ptype}

    # ---- oracle 4: binary admission
    if has_bytes and ptype not in (2, 3):
        try:
            P.Packet(ptype, data=data, namespace=nsp, id=pid)
        except ValueError:
            labels['nontrivial'] = S.bytes_depth(data) > 1
            labels['admission_refused'] = True
            return labels
        raise Violation('binary-admitted',
                        'type %d accepted a bytes payload' % ptype)
    try:
        pkt = P.Packet(ptype, data=data, namespace=nsp, id=pid)
    except ValueError as e:
        raise Violation('construct-raised', repr(e))
    etype = ptype
    if has_bytes:
        etype = 5 if ptype == 2 else 6
    if pkt.packet_type != etype:
        raise Violation('promotion', 'type %r after construction, expected %r'
                        % (pkt.packet_type, etype))
    if etype in (5, 6):
        # an earlier binary packet of the same type on the same namespace,
        # with another number of attachments
        tmp = []
        refcodec.deconstruct(data, tmp)
        other = [b'o'] * (len(tmp) + 1)
        P.Packet(ptype if ptype in (2, 3) else etype - 3,
                 data=(['earlier'] if etype == 5 else []) + other,
                 namespace=nsp, id=pid).encode()
    enc0 = pkt.encode()
    # an earlier packet of the application could not be encoded: that is the
    # application's problem, and changes nothing for the packets after it
    bad = {'set': ['x', {1, 2}], 'object': ['x', object()],
           'key': ['x', {(1, 2): 3}],
           'bytes': None}[case.get('prior', 'set')]
    try:
        if bad is None:
            P.Packet(2, data=['x', b'raw'], namespace=nsp,
                     binary=False).encode()
        else:
            P.Packet(2, data=bad, namespace=nsp, id=pid).encode()
    except Exception:
        labels['after_failed_encode'] = True
    enc = pkt.encode()
    if not strict_eq(enc, enc0):
        raise Violation('encode-depends-on-history', 'after a failed '
                        'encode of another packet: %r, before: %r'
                        % (repr(enc)[:200], repr(enc0)[:200]))
    if etype in (5, 6):
        if not isinstance(enc, list) or not isinstance(enc[0], str):
            raise Violation('encode-shape', 'binary packet not a list')
        text, atts = enc[0], enc[1:]
    else:
        if not isinstance(enc, str):
            raise Violation('encode-shape', 'text packet not a str: %r'
                            % type(enc))
        text, atts = enc, []

    # encoding is a pure function of the packet: a second encode() of the
    # same object yields the same frames
    enc2 = pkt.encode()
    if not strict_eq(enc2, enc):
        raise Violation('encode-not-repeatable', 'second encode() %r, first '
                        '%r' % (repr(enc2)[:200], repr(enc)[:200]))

    # ---- oracle 2: conformance
    ref_atts = []
    ref_body = refcodec.deconstruct(data, ref_atts) if etype in (5, 6) \
        else data
    if len(atts) != len(ref_atts) or any(
            type(a) is not bytes or a != b for a, b in zip(atts, ref_atts)):
        raise Violation('attachments', 'attachment list %r, expected %r'
                        % (atts, ref_atts))
    header = refcodec.header(etype, len(ref_atts), nsp, pid)
    if not text.startswith(header):
        raise Violation('header', 'frame %r does not start with %r'
                        % (text[:60], header))
    body = text[len(header):]
    if data is None:
        if body != '':
            raise Violation('payload', 'payload %r for data None' % body[:40])
    else:
        try:
            refcodec._strict_json_scan(body)
            import json
            parsed = json.loads(body)
        except (refcodec.RefError, ValueError) as e:
            raise Violation('payload-not-compact-json', str(e))
        if not strict_eq(parsed, ref_body):
            raise Violation('payload-value', 'payload %r != %r'
                            % (parsed, ref_body))
    ambiguous = _bare_number(data)
    labels['ambiguous'] = ambiguous
    natt = len(ref_atts)
    fields = (etype in (5, 6)) + (nsp not in (None, '/')) + (pid is not None)
    labels['fields'] = fields
    labels['natt'] = min(natt, 5)
    labels['nontrivial'] = bool(
        fields >= 2 or S.bytes_depth(data) > 1 or
        (data is not None and not isinstance(data, (list, dict))))
    if ambiguous:
        return labels

    wire_ns = '/' if nsp in (None, '/') else nsp
    try:
        r = refcodec.decode(text, strict=True)
        refcodec.check_placeholders(r['data'], r['attachments'])
    except refcodec.RefError as e:
        raise Violation('reference-rejects', '%s (frame %r)' % (e, text[:80]))
    if (r['type'], r['attachments'], r['nsp'], r['id']) != \
            (etype, natt, wire_ns, pid):
        raise Violation('reference-reads-differently', repr(r)[:200])
    if not strict_eq(refcodec.reconstruct(r['data'], atts), _l(data)):
        raise Violation('reference-payload', repr(r['data'])[:200])

    # decoding is a function of the frames alone: the same text with other
    # attachments yields the other attachments (nothing of an earlier
    # decode is remembered)
    if atts:
        other = [b'#' + a[::-1] for a in atts]
        for use in (atts, other):
            try:
                d2 = P.Packet(encoded_packet=text)
                for a in use:
                    d2.add_attachment(a)
            except Exception as e:
                raise Violation('redecode-raised', repr(e))
            want2 = refcodec.reconstruct(r['data'], use)
            if not strict_eq(d2.data, want2):
                raise Violation('decode-remembers-earlier-packet',
                                'text %r with attachments %r decoded to %r'
                                % (text[:80], use, repr(d2.data)[:200]))
        # ... and of the packet object alone: two packets whose attachments
        # are handed back alternately (two connections), behind a third one
        # that was given up half-way
        try:
            d0 = P.Packet(encoded_packet=text)
            if len(atts) >= 2:
                d0.add_attachment(b'abandoned')
            da = P.Packet(encoded_packet=text)
            db = P.Packet(encoded_packet=text)
            done = []
            for a, b in zip(atts, other):
                done.append((da.add_attachment(a), db.add_attachment(b)))
        except Exception as e:
            raise Violation('interleaved-reassembly-raised', repr(e))
        if done and (done[-1] != (True, True) or any(
                x or y for x, y in done[:-1])):
            raise Violation('interleaved-reassembly-completion', repr(done))
        if not strict_eq(da.data, refcodec.reconstruct(r['data'], atts)) or \
                not strict_eq(db.data, refcodec.reconstruct(r['data'],
                                                            other)):
            raise Violation('reassembly-shared-between-packets',
                            'two packets decoded from %r and reassembled '
                            'alternately gave %r and %r'
                            % (text[:80], repr(da.data)[:150],
                               repr(db.data)[:150]))
        labels['interleaved_reassembly'] = True
    # ---- oracle 1: round trip
    if _norm_ns(nsp) != (nsp or '/'):
        # decoding drops the query string of a namespace: the decoded packet
        # re-encodes with the bare namespace
        ctext = refcodec.header(etype, natt, _norm_ns(nsp), pid) + body
        enc = [ctext] + list(atts) if etype in (5, 6) else ctext
    _roundtrip(P, text, atts, etype, nsp, pid, data, 'roundtrip', enc)

    # ---- oracle 3: reverse interoperation
    rtext, ratts = refcodec.encode(etype, nsp, pid, data,
                                   choice=case.get('choice', 0),
                                   ws=case.get('ws', ''))
    _roundtrip(P, rtext, ratts, etype, nsp, pid, data, 'reverse', enc)

    # a packet object is what it holds now: after the application has given
    # an encoded packet another payload (one more attachment), encoding it
    # yields the frames of a packet made with that payload
    if etype in (5, 6) and isinstance(data, list):
        import copy
        if case.get('choice', 0) % 2:
            data2 = copy.deepcopy(data) + [b'late']
        elif etype == 5:
            data2 = [data[0], b'early'] + copy.deepcopy(data[1:])
        else:
            data2 = [b'early'] + copy.deepcopy(data)
        pkt.data = data2
        got = pkt.encode()
        want = P.Packet(etype - 3, data=copy.deepcopy(data2), namespace=nsp,
                        id=pid).encode()
        if not strict_eq(got, want):
            raise Violation('encode-ignores-new-payload', 'after data was '
                            'replaced: %r, a fresh packet with that payload: '
                            '%r' % (repr(got)[:200], repr(want)[:200]))
        labels['reencoded_after_payload_change'] = True
    return labels


def _l(v):
    return v


def _roundtrip(P, text, atts, etype, nsp, pid, data, what, canonical=None):
    try:
        d = P.Packet(encoded_packet=text)
    except Exception as e:
        raise Violation(what + '-decode-raised', '%r on %r' % (e, text[:80]))
    if d.attachment_count != len(atts):
        raise Violation(what + '-attachment-count', '%r != %d'
                        % (d.attachment_count, len(atts)))
    for k, a in enumerate(atts):
        try:
            done = d.add_attachment(a)
        except Exception as e:
            raise Violation(what + '-add-attachment-raised', repr(e))
        if done is not (k == len(atts) - 1):
            raise Violation(what + '-completion', 'add_attachment #%d of %d '
                            'returned %r' % (k + 1, len(atts), done))
    try:
        d.add_attachment(b'x')
    except ValueError:
        pass
    else:
        raise Violation(what + '-surplus-attachment-accepted', '')
    if d.packet_type != etype:
        raise Violation(what + '-type', '%r != %r' % (d.packet_type, etype))
    if (d.namespace or '/') != _norm_ns(nsp):
        raise Violation(what + '-namespace', '%r != %r'
                        % (d.namespace, _norm_ns(nsp)))
    if d.id != pid or (pid is not None and type(d.id) is not int):
        raise Violation(what + '-id', '%r != %r' % (d.id, pid))
    if not strict_eq(d.data, data):
        raise Violation(what + '-payload', '%r != %r'
                        % (repr(d.data)[:200], repr(data)[:200]))
    if canonical is not None:
        # relaying: the packet object that decoding produced encodes to the
        # frames the wire format prescribes for it
        try:
            again = d.encode()
        except Exception as e:
            raise Violation(what + '-reencode-raised', repr(e))
        if not strict_eq(again, canonical):
            raise Violation(what + '-reencode', 're-encoding the decoded '
                            'packet gives %r, the format prescribes %r'
                            % (repr(again)[:200], repr(canonical)[:200]))


def classify(case, v):
    return v.kind


def extra_engines(tier, seed, acc, deadline):
    """Thorough tier: coverage-guided atheris campaign over the same
    Hypothesis test (fuzz_one_input), 4 parallel libFuzzer processes."""
    if tier != 'thorough':
        return
    import time
    from ..fuzz_driver import campaign
    budget = max(60, min(900, deadline - time.time() - 60))
    for case in campaign(PID, 150000, seed, budget, acc):
        yield case
