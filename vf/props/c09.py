"""C09 Client events and acknowledgements: one handler, one ACK, callback
once."""
from hypothesis import strategies as st

from .. import strategies as S
from .. import wire
from ..case import strict_eq
from ..core import Violation
from ..eio_client import ClientHarness

PID = 'C09'
RULE = ('Client / AsyncClient on the real engine.io client object, connected '
        'to 1-3 namespaces: generated sequences of server EVENT / '
        'BINARY_EVENT frames (ids None, 0, any; function, catch-all and '
        'class-based handlers, sync or coroutine, generated return values) '
        'and ACK / BINARY_ACK frames (id right, repeated, unknown incl. 0, '
        'outstanding on a different namespace, a duplicate processed while '
        'the callback still runs, callbacks and handlers that raise) '
        'interleaved with handlers registered while connected (event, '
        'catch-all, catch-all namespace) and with client '
        'emit(callback) and call() on several namespaces. Oracle: exactly one '
        'handler invocation with the sent args per event with a responsible '
        'target, none otherwise; exactly one ACK (namespace, id, packed '
        'return value) iff the event had an id; emitted ids unique among '
        "the namespace's outstanding callbacks; callback at most once, only "
        'for its (namespace, id), args as acknowledged; other ACKs change '
        'nothing and raise nothing; call() result shaping / TimeoutError. '
        'Non-trivial: equal ids outstanding on two namespaces, or an ACK '
        'repeated after the callback fired, or both directions in one '
        'history.'
        ' Also generated: the answer to something else that is still outstanding (an earlier call() that timed out, an emit with a callback) arrives while a call() waits.'
        ' Frames whose payload is not a list (a string, an object, nothing, an empty list) invoke nothing, are not acknowledged and leave an outstanding callback outstanding.'
        ' Op relive: the server ends every namespace (ending the connection) while callbacks are outstanding, the same client object connects again, and ACKs bearing the earlier ids arrive: nothing is invoked.')
ASSUMPTIONS = [
    'the scripted server only sends on namespaces it has accepted',
    'call() time-outs: pumping wait primitive (threaded) / virtual time '
    '(asyncio)',
]
BUDGET = {'quick': 4000, 'thorough': 80000}
FLOOR = {'quick': 150, 'thorough': 5000}
CB_FAULT = 'application callback fault'
NSS = ['/', '/a', '/b']
NEVER = [0, 10**6, 2**63, 999]


def strategy(tier):
    big = tier == 'thorough'
    arg = S.tree_st(with_bytes=True, max_leaves=5)
    args = st.lists(arg, max_size=3)
    ret = st.one_of(st.none(), arg, st.lists(arg, max_size=3).map(tuple),
                    st.sampled_from([(), 0, '', False, [], b'', (b'x', 1)]))
    nsi = st.integers(0, 2)
    sel = st.sampled_from(['own', 'own', 'own', 'used', 'used', 'never',
                           'otherns', 'otherns'])
    during = st.lists(st.one_of(
        st.fixed_dictionaries({'a': st.just('ack_right'), 'args': args}),
        st.fixed_dictionaries({'a': st.just('ack_wrong'), 'args': args}),
        st.fixed_dictionaries({'a': st.just('ack_otherns'), 'args': args}),
        # the answer to something else that is still outstanding - an
        # earlier call() that had timed out, an emit with a callback -
        # arrives while this call() waits
        st.fixed_dictionaries({'a': st.just('ack_earlier'), 'args': args,
                               'j': st.integers(0, 5)})),
        max_size=3)
    op = st.one_of(
        st.fixed_dictionaries({'op': st.just('ev'), 'ns': nsi,
                               'name': st.sampled_from(['a', 'b', 'z']),
                               'id': st.one_of(st.none(),
                                               st.sampled_from([0, 1, 2]),
                                               st.integers(0, 2**40)),
                               'args': args, 'ret': ret}),
        st.fixed_dictionaries({'op': st.just('ev'), 'ns': nsi,
                               'name': st.sampled_from(['a', 'b', 'z']),
                               'id': st.sampled_from([0, 1, 2]),
                               'bin0': st.booleans(),
                               'args': args, 'ret': ret}),
        # a (text or binary) event whose handler raises, then an ordinary
        # event: the second one must be handled and acknowledged as usual
        st.fixed_dictionaries({'op': st.just('fault_ev'), 'ns': nsi,
                               'binary': st.booleans(),
                               'exc': st.sampled_from(['__raise__',
                                                       '__raise_type__']),
                               'id': st.one_of(st.none(), st.integers(0, 4)),
                               'id2': st.integers(0, 4)}),
        st.fixed_dictionaries({'op': st.just('emit_cb'), 'ns': nsi,
                               'data': S.payload_st(max_leaves=3),
                               'send': st.booleans()}),
        st.fixed_dictionaries({'op': st.just('emit_cb'), 'ns': nsi,
                               'data': st.just('d'),
                               'send': st.just(False)}),
        # an emit with callback whose payload cannot be encoded: the
        # application is told, nothing else changes
        st.fixed_dictionaries({'op': st.just('emit_fail'), 'ns': nsi}),
        # the server ends one namespace; the others, with their outstanding
        # callbacks, are not affected
        st.fixed_dictionaries({'op': st.just('sdisc_ns'), 'ns': nsi}),
        # the server ends every namespace (which ends the connection), the
        # same client object connects again, and acknowledgements bearing
        # the ids of the earlier connection's outstanding callbacks arrive:
        # they are unknown to the new connection and are ignored
        st.fixed_dictionaries({'op': st.just('relive')}),
        # the handler of an event uses call() itself and answers with what
        # the server acknowledged: the acknowledgement is dispatched (by
        # another engine.io thread / task) while the handler is still running
        st.fixed_dictionaries({'op': st.just('ev_calls'), 'ns': nsi,
                               'id': st.one_of(st.none(), st.integers(0, 5)),
                               'answer': st.sampled_from(['pong', 7,
                                                          [1, 2]])}),
        # the application registers one more handler while connected: events
        # from then on go to whichever handler is now the most specific
        st.fixed_dictionaries({'op': st.just('reg'),
                               'what': st.sampled_from(REGS)}),
        st.fixed_dictionaries({'op': st.just('ack'), 'ns': nsi, 'sel': sel,
                               'j': st.integers(0, 5), 'args': args,
                               'dup': st.booleans(),
                               'raises': st.just(False)}),
        st.fixed_dictionaries({'op': st.just('ack'), 'ns': nsi, 'sel': sel,
                               'j': st.integers(0, 5), 'args': args,
                               'dup': st.booleans(),
                               'raises': st.booleans()}),
        # a frame whose payload is not the list that an event / an
        # acknowledgement carries (a string, an object, nothing): it names
        # no event and acknowledges nothing - no handler, no ACK, and an
        # outstanding callback stays outstanding
        st.fixed_dictionaries({'op': st.just('bad_payload'), 'ns': nsi,
                               'what': st.sampled_from(
                                   ['ev_str', 'ev_obj', 'ack_str', 'ack_obj',
                                    'ack_none', 'ev_empty']),
                               'j': st.integers(0, 5)}),
        st.fixed_dictionaries({'op': st.just('call'), 'ns': nsi,
                               'timeout': st.sampled_from([0.5, 2, 60]),
                               'data': S.payload_st(max_leaves=3),
                               'during': during}))
    return st.fixed_dictionaries({
        'aio': st.booleans(), 'coro': st.booleans(),
        'coro_cb': st.booleans(),
        # the namespace served by the class-based namespace object also has
        # a function handler for an event the server never sends
        'decoy': st.booleans(),
        'nss': st.lists(nsi, min_size=1, max_size=3, unique=True),
        # the history ends with events that the server sent right before it
        # closed the connection (or before the transport failed): they were
        # read, so their handlers run, whichever is processed first
        'last': st.one_of(st.none(), st.fixed_dictionaries({
            'how': st.sampled_from(['close', 'lose']),
            'evs': st.lists(st.fixed_dictionaries({
                'ns': nsi, 'name': st.sampled_from(['a', 'b', 'z']),
                'id': st.one_of(st.none(), st.integers(0, 3)),
                'binary': st.booleans()}), min_size=1, max_size=3)})),
        'ops': st.lists(op, min_size=4, max_size=60 if big else 25)})


REGS = ['root_star', 'root_z', 'a_z', 'b_z', 'star_z', 'star_star']


def responsible(ns, name, regs=()):
    """(kind, label namespace, argument prefix) of the handler that serves
    event ``name`` on ``ns`` given the handlers registered so far."""
    events = {'/': {'a', 'b'}, '/a': {'a'}, '/b': set()}[ns]
    if ns == '/' and 'root_z' in regs or ns == '/a' and 'a_z' in regs or \
            ns == '/b' and 'b_z' in regs:
        events = events | {'z'}
    if name in events:
        return ('late' if name == 'z' else 'fn'), ns, []
    if ns == '/a' or ns == '/' and 'root_star' in regs:
        return 'catchall', ns, [name]
    if name == 'z' and 'star_z' in regs:
        return 'starns', '*', [ns]
    if 'star_star' in regs:
        return 'starstar', '*', [name, ns]
    if ns == '/b' and name in ('a', 'b'):
        return 'class', ns, []
    return None


def _shape(args):
    if len(args) == 0:
        return None
    if len(args) == 1:
        return args[0]
    return tuple(args)


def check_case(case):
    h = ClientHarness(aio=case['aio'], reconnection=False)
    try:
        return _run(case, h)
    finally:
        h.close()


def _run(case, h):
    import socketio
    sio = h.sio
    aio = case['aio']
    coro = case['coro'] and aio
    log = []
    rets = {}
    faults = {}

    def result(args):
        for a in args:
            if isinstance(a, dict) and set(a) == {'__tag'}:
                if faults.get(a['__tag']) == '__raise__':
                    raise RuntimeError('application handler fault')
                if faults.get(a['__tag']) == '__raise_type__':
                    raise TypeError('application handler fault')
                return rets[a['__tag']]
        return None

    callers = set()     # tags of events whose handler uses call()

    def _tag_of(args):
        for a in args:
            if isinstance(a, dict) and set(a) == {'__tag'}:
                return a['__tag']

    def mk(kind, ns):
        if coro:
            async def f(*args):
                log.append((kind, ns, args))
                if _tag_of(args) in callers:
                    return await sio.call('q', 1, namespace=ns, timeout=5)
                return result(args)
        else:
            def f(*args):
                log.append((kind, ns, args))
                if _tag_of(args) in callers and not aio:
                    return sio.call('q', 1, namespace=ns, timeout=5)
                return result(args)
        return f

    sio.on('a', mk('fn', '/'), namespace='/')
    sio.on('b', mk('fn', '/'), namespace='/')
    sio.on('a', mk('fn', '/a'), namespace='/a')
    sio.on('*', mk('catchall', '/a'), namespace='/a')
    base = socketio.AsyncClientNamespace if aio else socketio.ClientNamespace
    o = base('/b')
    o.on_a = mk('class', '/b')
    o.on_b = mk('class', '/b')
    sio.register_namespace(o)
    if case.get('decoy'):
        sio.on('never sent', mk('decoy', '/b'), namespace='/b')

    nss = [NSS[i] for i in case['nss']]

    def answer(*_):
        for n in nss:
            if n not in sio.namespaces:
                for f in wire.frames(wire.CONNECT, n, None,
                                     {'sid': 's' + n}):
                    h.deliver(f)
    if aio:
        task = h.loop.spawn(sio.connect('http://h', namespaces=nss))
        h.loop.run_until_idle()
        answer()
        h.loop.run_until_idle()
        if not task.done() or task.exception():
            raise Violation('connect-failed', repr(task))
    else:
        h.on_wait = answer
        sio.connect('http://h', namespaces=nss)
        h.on_wait = None
    reader = wire.Reader()
    reader.read(h.take_msgs())

    cb_log = []
    expect_cb = []
    outstanding = {n: {} for n in NSS}
    used = {n: [] for n in NSS}
    kctr = [0]
    tag = [0]
    labels = {'aio': aio, 'nontrivial': False}
    dirs = set()

    during_cb = {}
    gates = {}
    cb_raises = set()   # callbacks that raise (application fault)

    def mk_cb(k):
        if aio and case['coro_cb']:
            async def cb(*args):
                cb_log.append((k, list(args)))
                if k in during_cb:
                    fut = h.loop.create_future()
                    gates.setdefault(k, []).append(fut)
                    await fut
                if k in cb_raises:
                    raise RuntimeError(CB_FAULT)
        else:
            def cb(*args):
                cb_log.append((k, list(args)))
                fn = during_cb.pop(k, None)
                if fn is not None and not aio:
                    fn()        # re-entrant delivery of a duplicate ACK
                if k in cb_raises:
                    raise RuntimeError(CB_FAULT)
        return cb

    def check_quiet(step, what):
        # a raising callback is the application's fault; wherever it is
        # contained it is not held against the client
        h.swallowed[:] = [e for e in h.swallowed if CB_FAULT not in str(e)]
        h.bg_errors[:] = [e for e in h.bg_errors if CB_FAULT not in str(e)]
        if h.swallowed or h.bg_errors:
            raise Violation('error-on-frame', 'step %d (%s): %r'
                            % (step, what, (h.swallowed + h.bg_errors)[0]))
        if len(cb_log) != len(expect_cb) or not all(
                a[0] == b[0] and strict_eq(a[1], b[1])
                for a, b in zip(cb_log, expect_cb)):
            got = [k for k, _ in cb_log]
            exp = [k for k, _ in expect_cb]
            kind = 'callback-twice' if len(got) != len(set(got)) else (
                'callback-unexpected' if set(got) - set(exp) else (
                    'callback-missing' if set(exp) - set(got)
                    else 'callback-args'))
            raise Violation(kind, 'step %d (%s): %r expected %r'
                            % (step, what, cb_log[-3:], expect_cb[-3:]))

    leaked = {n: set() for n in NSS}   # ids of emits that were never sent
    relived = [False]
    regs = set()
    seen_ev = set()
    last_id = {}

    def pick(ns, sel, j):
        own = outstanding[ns]
        if sel == 'own' and own:
            ids = sorted(own)
            return ids[j % len(ids)], 'own'
        out = set(own) | leaked[ns]
        if sel == 'used':
            cand = [i for i in used[ns] if i not in out]
            if cand:
                return cand[j % len(cand)], 'used'
        if sel == 'otherns':
            cand = sorted({i for n2, o2 in outstanding.items() if n2 != ns
                           for i in o2 if i not in out})
            if cand:
                return cand[j % len(cand)], 'otherns'
        cand = [i for i in NEVER if i not in out]
        return cand[j % len(cand)], 'never'

    for step, op in enumerate(case['ops']):
        k = op['op']
        ns = nss[op.get('ns', 0) % len(nss)]
        if k == 'sdisc_ns':
            if len(nss) < 2:
                continue
            for f in wire.frames(wire.DISCONNECT, ns):
                h.deliver(f)
            nss.remove(ns)
            outstanding[ns].clear()
            used[ns][:] = []
            h.take_msgs()
            if ns in sio.namespaces:
                raise Violation('namespace-still-listed', ns)
            labels['server_ended_one_namespace'] = True
            if any(outstanding[n] for n in nss):
                labels['nontrivial'] = True
            check_quiet(step, 'sdisc_ns')
            continue
        if k == 'relive':
            old = [(n, i) for n in nss for i in sorted(outstanding[n])]
            if not old or relived[0]:
                continue
            relived[0] = True
            for n in list(nss):
                for f in wire.frames(wire.DISCONNECT, n):
                    h.deliver(f)
            if aio:
                h.loop.run_until_idle()
            h.take_msgs()
            if sio.connected or sio.namespaces:
                raise Violation('connected-after-server-disconnect',
                                repr(sio.namespaces))
            for n in NSS:
                outstanding[n].clear()
                used[n][:] = []
                leaked[n].clear()
            last_id.clear()     # the new connection numbers from the start
            check_quiet(step, 'relive: server ended every namespace')
            if aio:
                task = h.loop.spawn(sio.connect('http://h', namespaces=nss))
                h.loop.run_until_idle()
                answer()
                h.loop.run_until_idle()
                if not task.done() or task.exception():
                    raise Violation('connect-failed', 'second life: %r'
                                    % (task,))
            else:
                h.on_wait = answer
                sio.connect('http://h', namespaces=nss)
                h.on_wait = None
            reader.read(h.take_msgs())
            for n, i in old:
                for f in wire.frames(wire.ACK, n, i, ['late']):
                    h.deliver(f)
                if aio:
                    h.loop.run_until_idle()
            labels['ack_of_earlier_life'] = True
            labels['nontrivial'] = True
            check_quiet(step, 'relive: ACK with an id of the earlier '
                        'connection')
            if h.take_msgs():
                raise Violation('ack-caused-traffic', 'relive')
            continue
        if k == 'ev_calls':
            tgt = responsible(ns, 'a', regs)
            if tgt is None or tgt[1] != ns or (aio and not coro):
                continue
            import threading
            tag[0] += 1
            rets[tag[0]] = None
            callers.add(tag[0])
            h.take_outbox()
            st8 = {'blocked': False, 'cid': None}

            def answer_call(*_):
                pk = [p for p in reader.read(h.take_msgs())
                      if p['type'] == wire.EVENT]
                if len(pk) != 1 or type(pk[0]['id']) is not int:
                    raise Violation('call-frame', repr(pk))
                st8['cid'] = pk[0]['id']
                fr = wire.frames(wire.ACK, ns, pk[0]['id'], [op['answer']])
                if aio:
                    for f in fr:
                        h.deliver(f)
                    return
                # engine.io dispatches every message on a thread of its own
                th = threading.Thread(target=lambda: [h.deliver(f)
                                                      for f in fr],
                                      daemon=True)
                th.start()
                th.join(20)
                st8['blocked'] = th.is_alive()
            if aio:
                for f in wire.frames(wire.EVENT, ns, op['id'],
                                     ['a', {'__tag': tag[0]}]):
                    h.deliver(f)
                answer_call()
                h.loop.run_until_idle()
            else:
                h.on_wait = answer_call
                try:
                    for f in wire.frames(wire.EVENT, ns, op['id'],
                                         ['a', {'__tag': tag[0]}]):
                        h.deliver(f)
                finally:
                    h.on_wait = None
            if st8['blocked']:
                raise Violation('ack-blocked-while-handler-runs',
                                'the acknowledgement of a call() made by an '
                                'event handler was not processed while the '
                                'handler was waiting for it')
            used[ns].append(st8['cid'])
            last_id[ns] = st8['cid']
            pk = reader.read(h.take_msgs())
            want = [] if op['id'] is None else [
                (wire.ACK, ns, op['id'], [op['answer']])]
            if [(p['type'], p['nsp'], p['id'], p['data']) for p in pk] != \
                    want:
                raise Violation('ack-mismatch', 'event whose handler '
                                'answers with the result of a call(): %r, '
                                'expected %r' % (pk, want))
            labels['handler_uses_call'] = True
            labels['nontrivial'] = True
            dirs.update(('in', 'out'))
            check_quiet(step, 'ev_calls')
            continue
        if k == 'reg':
            w = op['what']
            if w in regs:
                continue
            rn, re_ = {'root_star': ('/', '*'), 'root_z': ('/', 'z'),
                       'a_z': ('/a', 'z'), 'b_z': ('/b', 'z'),
                       'star_z': ('*', 'z'), 'star_star': ('*', '*')}[w]
            kind = {'root_star': 'catchall', 'star_z': 'starns',
                    'star_star': 'starstar'}.get(w, 'late')
            sio.on(re_, mk(kind, rn), namespace=rn)
            regs.add(w)
            if seen_ev:
                labels['handler_registered_after_events'] = True
            continue
        if k == 'ev':
            dirs.add('in')
            seen_ev.add((ns, op['name']))
            tag[0] += 1
            rets[tag[0]] = op['ret']
            args = [{'__tag': tag[0]}] + list(op['args'])
            nlog = len(log)
            frs = wire.frames(wire.EVENT, ns, op['id'], [op['name']] + args)
            if op.get('bin0') and len(frs) == 1 and isinstance(
                    frs[0], str) and frs[0][:1] == '2':
                # a BINARY_EVENT that announces zero attachments
                frs = ['50-' + frs[0][1:]]
                labels['binary_event_without_attachments'] = True
            for f in frs:
                h.deliver(f)
            tgt = responsible(ns, op['name'], regs)
            new = log[nlog:]
            if tgt is None:
                if new:
                    raise Violation('invoked-unexpectedly', repr(new))
            else:
                wargs = tgt[2] + args
                if len(new) != 1:
                    raise Violation('invocation-count', '%r on %s: %r'
                                    % (op['name'], ns, new))
                if new[0][0] != tgt[0] or new[0][1] != tgt[1] or \
                        not strict_eq(list(new[0][2]), wargs):
                    raise Violation('wrong-target-or-arguments',
                                    '%r expected %s %r' % (new[0], tgt,
                                                           wargs))
            pk = reader.read(h.take_msgs())
            if op['id'] is None:
                if pk:
                    raise Violation('ack-without-id', repr(pk))
            else:
                r = op['ret'] if tgt is not None else None
                want = wire.pack_args(r)
                if len(pk) != 1 or pk[0]['type'] not in (
                        wire.ACK, wire.BINARY_ACK) or pk[0]['nsp'] != ns or \
                        pk[0]['id'] != op['id'] or not strict_eq(
                            pk[0]['data'], want) or \
                        pk[0]['binary'] != S.contains_bytes(want):
                    kind = 'ack-missing' if not pk else (
                        'ack-extra' if len(pk) > 1 else 'ack-mismatch')
                    raise Violation(kind, 'event id %r on %s ret %r: %r'
                                    % (op['id'], ns, r, pk))
            check_quiet(step, 'ev')
        elif k == 'fault_ev':
            if responsible(ns, 'a', regs) is None:
                continue
            dirs.add('in')
            nlog = len(log)
            tag[0] += 1
            faults[tag[0]] = op.get('exc', '__raise__')
            rets[tag[0]] = None
            t1 = tag[0]
            for f in wire.frames(wire.EVENT, ns, op['id'],
                                 ['a', {'__tag': t1}] + (
                                     [b'bin', {'k': b'x'}] if op['binary']
                                     else ['txt'])):
                h.deliver(f)
            tag[0] += 1
            rets[tag[0]] = 'after-fault'
            for f in wire.frames(wire.EVENT, ns, op['id2'],
                                 ['a', {'__tag': tag[0]}]):
                h.deliver(f)
            h.bg_errors[:] = [e for e in h.bg_errors if
                              'application handler fault' not in str(e)]
            h.swallowed[:] = []
            tags = [a['__tag'] for e in log[nlog:] for a in e[2]
                    if isinstance(a, dict) and set(a) == {'__tag'}]
            if tags != [t1, tag[0]]:
                raise Violation('event-lost-after-handler-fault',
                                'handled %r expected %r' % (tags,
                                                            [t1, tag[0]]))
            pk = reader.read(h.take_msgs())
            if [(p['nsp'], p['id'], p['data']) for p in pk] != [
                    (ns, op['id2'], ['after-fault'])]:
                raise Violation('ack-after-handler-fault', repr(pk))
            labels['handler_fault'] = True
            check_quiet(step, 'fault_ev')
        elif k == 'emit_cb':
            dirs.add('out')
            kctr[0] += 1
            kk = kctr[0]
            if op['send']:
                h.do(sio.send(op['data'], namespace=ns, callback=mk_cb(kk)))
                name = 'message'
            else:
                h.do(sio.emit('q', op['data'], namespace=ns,
                              callback=mk_cb(kk)))
                name = 'q'
            pk = reader.read(h.take_msgs())
            if len(pk) != 1 or pk[0]['nsp'] != ns or type(
                    pk[0]['id']) is not int or not strict_eq(
                        pk[0]['data'], [name] + wire.pack_args(op['data'])):
                raise Violation('emit-frame', repr(pk))
            pid = pk[0]['id']
            if pid in outstanding[ns]:
                raise Violation('ack-id-not-unique', 'id %r on %s' % (pid, ns))
            outstanding[ns][pid] = kk
            last_id[ns] = pid
            same = [n for n in NSS if n != ns and pid in outstanding[n]]
            if same:
                labels['nontrivial'] = True
                labels['equal_ids_two_namespaces'] = True
            check_quiet(step, 'emit_cb')
        elif k == 'emit_fail':
            h.take_msgs()
            try:
                h.do(sio.emit('q', {1, 2}, namespace=ns,
                              callback=lambda *a: cb_log.append(
                                  ('never-sent', a))))
            except TypeError:
                pass
            if h.take_msgs():
                raise Violation('failed-emit-sent-something', '')
            last_id[ns] = last_id.get(ns, 0) + 1
            leaked[ns].add(last_id[ns])
            labels['emit_failed'] = True
            check_quiet(step, 'emit_fail')
        elif k == 'ack':
            pid, kind = pick(ns, op['sel'], op['j'])
            kk = None
            if kind == 'own':
                kk = outstanding[ns].pop(pid)
                used[ns].append(pid)
                if kk is not None:
                    expect_cb.append((kk, list(op['args'])))
            dup = op.get('dup') and kind == 'own' and kk is not None
            if op.get('raises') and kind == 'own' and kk is not None:
                cb_raises.add(kk)
                labels['callback_raises'] = True
            frs = wire.frames(wire.ACK, ns, pid, list(op['args']))
            if dup and aio and case['coro_cb']:
                from engineio import packet as ep
                during_cb[kk] = True
                tasks = []
                for rep in range(2):        # the ACK and its duplicate
                    for f in frs:
                        tasks.append(h.loop.spawn(h.eio._receive_packet(
                            ep.Packet(ep.MESSAGE, f))))
                        h.loop.run_until_idle()
                during_cb.pop(kk, None)
                for fut in gates.pop(kk, []):
                    fut.set_result(None)
                h.loop.run_until_idle()
                labels['dup_ack_during_callback'] = True
                labels['nontrivial'] = True
            elif dup and not aio:
                during_cb[kk] = lambda: [h.deliver(f) for f in frs]
                for f in frs:
                    h.deliver(f)
                labels['dup_ack_during_callback'] = True
                labels['nontrivial'] = True
            else:
                for f in frs:
                    h.deliver(f)
            labels['ack_' + kind] = True
            if kind == 'used':
                labels['nontrivial'] = True
            check_quiet(step, 'ack %s id=%r' % (kind, pid))
            if h.take_msgs():
                raise Violation('ack-caused-traffic', '')
        elif k == 'bad_payload':
            what = op['what']
            nlog = len(log)
            prefix = '' if ns == '/' else ns + ','
            if what.startswith('ev'):
                body = {'ev_str': '"abc"', 'ev_obj': '{"a":1,"b":2}',
                        'ev_empty': '[]'}[what]
                h.deliver('2' + prefix + '7' + body)
            else:
                own = sorted(outstanding[ns])
                pid = own[op['j'] % len(own)] if own else 1
                body = {'ack_str': '"abc"', 'ack_obj': '{"a":1,"b":2}',
                        'ack_none': ''}[what]
                h.deliver('3' + prefix + str(pid) + body)
            h.swallowed[:] = []
            h.bg_errors[:] = []
            if len(log) != nlog:
                raise Violation('invocation-count', 'a frame whose payload '
                                'is not a list (%s) invoked %r'
                                % (what, log[nlog:]))
            if h.take_msgs():
                raise Violation('ack-for-undecodable-event', what)
            labels['payload_not_a_list'] = True
            labels['nontrivial'] = True
            check_quiet(step, 'payload that is not a list: ' + what)
        elif k == 'call':
            dirs.add('out')
            state = {'id': None, 'have': False, 'result': None}

            def actions(*_):
                pk = reader.read(h.take_msgs())
                if len(pk) != 1 or type(pk[0]['id']) is not int or \
                        pk[0]['nsp'] != ns:
                    raise Violation('call-frame', repr(pk))
                state['id'] = pk[0]['id']
                last_id[ns] = state['id']
                if state['id'] in outstanding[ns]:
                    raise Violation('ack-id-not-unique', 'call id %r'
                                    % state['id'])
                for a in op['during']:
                    if a['a'] == 'ack_right':
                        for f in wire.frames(wire.ACK, ns, state['id'],
                                             list(a['args'])):
                            h.deliver(f)
                        if not state['have']:
                            state['have'] = True
                            state['result'] = _shape(list(a['args']))
                    elif a['a'] == 'ack_wrong':
                        for f in wire.frames(wire.ACK, ns,
                                             state['id'] + 1000,
                                             list(a['args'])):
                            h.deliver(f)
                    elif a['a'] == 'ack_earlier':
                        pool = [(n2, i2) for n2 in nss
                                for i2 in sorted(outstanding[n2])
                                if (n2, i2) != (ns, state['id'])]
                        if pool:
                            n2, i2 = pool[a['j'] % len(pool)]
                            kk = outstanding[n2].pop(i2)
                            used[n2].append(i2)
                            if kk is not None:
                                expect_cb.append((kk, list(a['args'])))
                            for f in wire.frames(wire.ACK, n2, i2,
                                                 list(a['args'])):
                                h.deliver(f)
                            labels['earlier_answer_during_call'] = True
                            labels['nontrivial'] = True
                    else:
                        others = [n for n in nss if n != ns]
                        if others:
                            for f in wire.frames(wire.ACK, others[0],
                                                 state['id'],
                                                 list(a['args'])):
                                if state['id'] not in outstanding[
                                        others[0]] and state['id'] not in \
                                        leaked[others[0]]:
                                    h.deliver(f)
            err = res = None
            if aio:
                task = h.loop.spawn(sio.call('q', op['data'], namespace=ns,
                                             timeout=op['timeout']))
                h.loop.run_until_idle()
                actions()
                h.loop.run_until_idle()
                t0 = h.loop.time()
                while not task.done():
                    if not h.loop.advance():
                        raise Violation('call-never-returns', '')
                if task.exception() is not None:
                    err = task.exception()
                else:
                    res = task.result()
                if not state['have'] and abs(
                        h.loop.time() - t0 - op['timeout']) > 1e-6:
                    raise Violation('call-timeout-value', '')
            else:
                h.waits.clear()
                h.on_wait = actions
                try:
                    res = sio.call('q', op['data'], namespace=ns,
                                   timeout=op['timeout'])
                except socketio.exceptions.TimeoutError as e:
                    err = e
                finally:
                    h.on_wait = None
                if h.waits != [op['timeout']]:
                    raise Violation('call-timeout-value', repr(h.waits))
            if state['have']:
                if err is not None or not strict_eq(res, state['result']):
                    raise Violation('call-result', '%r / %r != %r'
                                    % (res, err, state['result']))
                used[ns].append(state['id'])
                labels['call_acked'] = True
            else:
                if not isinstance(err, socketio.exceptions.TimeoutError):
                    raise Violation('call-no-timeout', '%r %r' % (res, err))
                outstanding[ns][state['id']] = None
                labels['call_timeout'] = True
            check_quiet(step, 'call')
    if dirs == {'in', 'out'}:
        labels['nontrivial'] = True
        labels['both_directions'] = True
    last = case.get('last')
    if last:
        frames, wants = [], []
        for e in last['evs']:
            ns = nss[e['ns'] % len(nss)]
            tag[0] += 1
            rets[tag[0]] = None
            args = [{'__tag': tag[0]}] + ([b'fin'] if e['binary'] else [])
            frames += wire.frames(wire.EVENT, ns, e['id'],
                                  [e['name']] + args)
            tgt = responsible(ns, e['name'], regs)
            if tgt is not None:
                wants.append((tgt[0], tgt[1], tgt[2] + args))
        nlog = len(log)
        h.deliver_then_end(frames, last['how'])
        new = log[nlog:]
        if len(new) != len(wants) or not all(
                g[0] == w[0] and g[1] == w[1] and strict_eq(list(g[2]), w[2])
                for g, w in zip(new, wants)):
            raise Violation('event-before-the-end-lost'
                            if len(new) < len(wants) else 'invocation-count',
                            'events read before the connection ended (%s): '
                            'handled %r expected %r' % (last['how'], new,
                                                        wants))
        check_quiet(len(case['ops']), 'events before the end')
        labels['events_right_before_the_end'] = last['how']
    return labels


def classify(case, v):
    return v.kind
