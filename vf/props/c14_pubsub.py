"""C14, pub/sub family: the same cluster history (immediate consumption)
against PubSubManager+Server and AsyncPubSubManager+AsyncServer."""
import pickle

from hypothesis import strategies as st

from .. import strategies as S
from .. import wire
from ..cluster import Cluster
from ..core import as_violation
from ..scenario import norm

NSS = ['/', '/a']
ROOMS = ['r1', 'r2', 7]


def strategy(tier):
    big = tier == 'thorough'
    ci = st.integers(0, 7)
    hi = st.integers(0, 2)
    room = st.integers(0, 2)
    to = st.one_of(st.none(), room, st.lists(room, min_size=1, max_size=2),
                   st.fixed_dictionaries({'sid': ci}))
    op = st.one_of(
        st.fixed_dictionaries({'op': st.just('connect'), 'h': hi,
                               'ns': st.integers(0, 1)}),
        st.fixed_dictionaries({'op': st.just('enter'), 'c': ci, 'room': room,
                               'via': hi}),
        st.fixed_dictionaries({'op': st.just('leave'), 'c': ci, 'room': room,
                               'via': hi}),
        st.fixed_dictionaries({'op': st.just('close_room'), 'room': room,
                               'ns': st.integers(0, 1), 'via': hi}),
        st.fixed_dictionaries({'op': st.just('emit'), 'via': st.one_of(
            hi, st.just('wo')), 'to': to, 'ns': st.integers(0, 1),
            'skip': st.one_of(st.none(), ci),
            'data': S.payload_st(max_leaves=3), 'cb': st.booleans()}),
        st.fixed_dictionaries({'op': st.just('ack'), 'c': ci,
                               'j': st.integers(0, 3),
                               'args': st.lists(S.tree_st(max_leaves=2),
                                                max_size=2)}),
        st.fixed_dictionaries({'op': st.just('sdisc'), 'c': ci, 'via': hi}),
        st.fixed_dictionaries({'op': st.just('cdisc'), 'c': ci}),
        st.fixed_dictionaries({'op': st.just('garbage'),
                               'v': st.one_of(st.binary(max_size=8),
                                              st.sampled_from(
                                                  [b'5', b'"method"',
                                                   b'{"method":"emit"}',
                                                   b'{"method":"zz"}']))}),
    )
    sc = st.fixed_dictionaries({
        'nhosts': st.integers(2, 3),
        'init': st.lists(st.tuples(hi, st.integers(0, 1)), min_size=2,
                         max_size=5),
        'ops': st.lists(op, min_size=4, max_size=40 if big else 16)})
    return st.fixed_dictionaries({'family': st.just('pubsub'), 'sc': sc})


def run(case, aio):
    sc = case['sc']
    cl = Cluster(aio=aio, nhosts=sc['nhosts'], namespaces=NSS)
    try:
        return _run(sc, aio, cl)
    finally:
        cl.close()


def _run(sc, aio, cl):
    import socketio
    nh = sc['nhosts']
    trace = []
    ids = set()
    labels = {'entry_points': set(), 'faults': 0}
    for h in cl.hosts:
        ids.add(h.mgr.host_id)
        real = h.sio.eio.generate_id

        def gen(real=real):
            i = real()
            ids.add(i)
            return i
        h.sio.eio.generate_id = gen

        def mk(kind, hi=h.idx):
            def f(*a):
                trace.append(('handler', hi, kind, list(a)))
            return f
        for n in NSS:
            h.sio.on('connect', (lambda sid, environ, auth=None: None),
                     namespace=n)
            h.sio.on('disconnect', mk('disconnect'), namespace=n)
    seen_bus = [0]
    pend = {}      # client -> ids wanting an ack

    def flush(step):
        cl.drain_all()
        for i in range(len(cl.clients)):
            for p in cl.recv(i):
                trace.append(('frame', i, p['type'], p['nsp'], p['id'],
                              p['data']))
                if p['type'] in (2, 5) and p['id'] is not None:
                    pend.setdefault(i, []).append(p['id'])
        for _, raw in cl.bus[seen_bus[0]:]:
            try:
                m = pickle.loads(raw)
            except Exception:
                m = ('garbage', len(raw))
            trace.append(('published', m))
        seen_bus[0] = len(cl.bus)
        for h in cl.hosts:
            while h.logged:
                e = h.logged.pop(0)
                trace.append(('logged', h.idx, e[0], type(e[2]).__name__))
            while h.h.swallowed:
                trace.append(('contained', h.idx, type(
                    h.h.swallowed.pop(0)[1]).__name__))

    def api(step, name, h, fn):
        labels['entry_points'].add(name)
        try:
            trace.append(('result', step, name, h.h.do(fn())))
        except Exception as e:
            if as_violation(e) is None and not isinstance(
                    e, (socketio.exceptions.SocketIOError, ValueError,
                        RuntimeError)):
                raise
            trace.append(('raised', step, name, type(e).__name__))

    def live():
        return [i for i, c in enumerate(cl.clients) if c['alive']]

    for hi, n in sc['init']:
        cl.connect(hi % nh, NSS[n])
    flush('init')
    cbk = [0]
    for step, op in enumerate(sc['ops']):
        k = op['op']
        lv = live()
        if k == 'connect':
            if len(cl.clients) < 8:
                labels['entry_points'].add('CONNECT')
                cl.connect(op['h'] % nh, NSS[op['ns']])
        elif k == 'garbage':
            labels['faults'] += 1
            cl.bus.append((step, op['v']))
        elif k == 'close_room':
            via = cl.hosts[op['via'] % nh]
            api(step, 'close_room', via, lambda: via.sio.close_room(
                ROOMS[op['room']], namespace=NSS[op['ns']]))
        elif k == 'emit':
            ns = NSS[op['ns']]
            to = op['to']
            kw = {}
            if isinstance(to, dict):
                if not lv:
                    continue
                c = cl.clients[lv[to['sid'] % len(lv)]]
                kw['to'] = c['sid']
                ns = c['ns']
            elif isinstance(to, list):
                kw['to'] = [ROOMS[r] for r in to]
            elif to is not None:
                kw['to'] = ROOMS[to]
            if op['skip'] is not None and cl.clients:
                kw['skip_sid'] = cl.clients[op['skip'] % len(
                    cl.clients)]['sid']
            if op['via'] == 'wo':
                mgr = cl.write_only()
                ids.add(mgr.host_id)
                labels['entry_points'].add('wo-emit')
                try:
                    cl.do(mgr.emit('ev', op['data'], namespace=ns,
                                   room=kw.get('to'),
                                   skip_sid=kw.get('skip_sid')))
                except Exception as e:
                    trace.append(('raised', step, 'wo-emit',
                                  type(e).__name__))
            else:
                via = cl.hosts[op['via'] % nh]
                if op['cb'] and isinstance(to, dict):
                    cbk[0] += 1

                    def cb(*a, kk=cbk[0], hi=via.idx):
                        trace.append(('callback', hi, kk, list(a)))
                    kw['callback'] = cb
                api(step, 'emit', via, lambda: via.sio.emit(
                    'ev', op['data'], namespace=ns, **kw))
        elif not lv:
            continue
        else:
            ci = lv[op['c'] % len(lv)]
            c = cl.clients[ci]
            if k in ('enter', 'leave'):
                via = cl.hosts[op['via'] % nh]
                fn = via.sio.enter_room if k == 'enter' else \
                    via.sio.leave_room
                api(step, k, via, lambda: fn(c['sid'], ROOMS[op['room']],
                                             namespace=c['ns']))
            elif k == 'sdisc':
                via = cl.hosts[op['via'] % nh]
                api(step, 'disconnect', via, lambda: via.sio.disconnect(
                    c['sid'], namespace=c['ns']))
                c['alive'] = False
            elif k == 'cdisc':
                labels['entry_points'].add('DISCONNECT')
                cl.send(ci, wire.DISCONNECT)
                c['alive'] = False
            elif k == 'ack':
                labels['entry_points'].add('ACK')
                pool = pend.get(ci) or [1]
                cl.send(ci, wire.ACK, pool[op['j'] % len(pool)],
                        list(op['args']))
        flush(step)
        for i in live():
            c = cl.clients[i]
            trace.append(('rooms', i, sorted(
                ([type(r).__name__, r] for r in cl.hosts[c['host']].sio.rooms(
                    c['sid'], namespace=c['ns'])), key=repr)))
    labels['entry_points'] = len(labels['entry_points'])
    return norm(trace, ids), labels
