"""Harness-side view of a server: transports, the socket.io clients on them,
and the packets each transport has received."""
from . import wire
from .core import Violation
from .eio_server import ServerHarness


class World:
    def __init__(self, aio=False, serializer='default', bg='inline',
                 **server_kwargs):
        if serializer != 'default':
            server_kwargs['serializer'] = serializer
        self.h = ServerHarness(aio=aio, bg=bg, **server_kwargs)
        self.sio = self.h.sio
        self.serializer = serializer
        self.t = []          # eio sids, by transport index
        self.t_alive = []
        self.readers = []
        self.clients = []    # dicts: t, ns, sid, alive
        self.all_sids = []

    # -- transports ------------------------------------------------------
    def open(self):
        eio_sid = self.h.open()
        self.t.append(eio_sid)
        self.t_alive.append(True)
        self.readers.append(wire.Reader(self.serializer))
        return len(self.t) - 1

    def send(self, t, ptype, nsp='/', pid=None, data=None):
        for f in wire.frames(ptype, nsp, pid, data, self.serializer):
            self.h.feed(self.t[t], f)

    def send_raw(self, t, body):
        self.h.feed(self.t[t], body)

    def recv(self, t):
        """Drain and decode what the server queued for transport t."""
        msgs = self.h.drain_msgs(self.t[t])
        try:
            return self.readers[t].read(msgs)
        except Exception as e:
            raise Violation('server-sent-undecodable-frame',
                            '%r in %r' % (e, msgs))

    def recv_all(self):
        return {t: self.recv(t) for t in range(len(self.t))}

    # -- socket.io clients -------------------------------------------------
    def connect(self, t, ns, auth=None):
        """CONNECT on transport t; returns (client index | None, packets)."""
        self.send(t, wire.CONNECT, ns, data=auth)
        pkts = self.recv(t)
        ci = None
        for p in pkts:
            if p['type'] == wire.CONNECT and p['nsp'] == (ns or '/') and \
                    isinstance(p['data'], dict) and 'sid' in p['data']:
                sid = p['data']['sid']
                self.clients.append({'t': t, 'ns': ns or '/', 'sid': sid,
                                     'alive': True})
                self.all_sids.append(sid)
                ci = len(self.clients) - 1
        return ci, pkts

    def live(self):
        return [i for i, c in enumerate(self.clients) if c['alive']]

    def client_on(self, t, ns):
        for i, c in enumerate(self.clients):
            if c['alive'] and c['t'] == t and c['ns'] == ns:
                return i
        return None

    def mark_dead(self, ci):
        self.clients[ci]['alive'] = False

    def lose(self, t, reason=None):
        self.h.lose(self.t[t], reason)
        self.t_alive[t] = False
        for c in self.clients:
            if c['t'] == t:
                c['alive'] = False

    def close_then(self, t, frames):
        self.h.close_then(self.t[t], frames)
        self.t_alive[t] = False
        for c in self.clients:
            if c['t'] == t:
                c['alive'] = False

    def do(self, x):
        return self.h.do(x)

    def close(self):
        self.h.close()
