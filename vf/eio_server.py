"""In-process transport on the real engineio.Server / engineio.AsyncServer.

No HTTP, no threads, no wall clock: transports are real engine.io Socket
objects registered the way Server._handle_connect registers them; client
frames enter through Socket.receive() (the real path, which contains handler
exceptions); everything the server sends lands in the real per-socket queue,
which the harness drains.

The same (synchronous) driver code handles both class families: `do(x)` runs
awaitables to completion on the deterministic loop and passes plain values
through.
"""
import inspect

from . import core
from .detloop import DetLoop, Deadlock  # noqa: F401


class BgHandle:
    """What start_background_task returns while the harness owns the task."""

    def __init__(self, h, target, args, kwargs):
        self.h = h
        self.target, self.args, self.kwargs = target, args, kwargs
        self.done = False
        self.result = None
        self.exc = None
        self.cbs = []

    def run(self):
        if self.done:
            return
        self.done = True
        try:
            self.result = self.h.do(self.target(*self.args, **self.kwargs))
        except Exception as e:   # background task died; recorded
            self.exc = e
            self.h.bg_errors.append(e)
        for cb in self.cbs:
            cb(self)

    def join(self, *a, **k):
        self.run()

    def add_done_callback(self, cb):
        if self.done:
            cb(self)
        else:
            self.cbs.append(cb)

    def cancel(self):
        self.done = True

    def __await__(self):
        if False:
            yield
        return self.result


class HEvent:
    """Replacement for threading.Event in the threaded classes: wait() never
    sleeps; it records the timeout and lets the harness pump."""

    def __init__(self, h):
        self.h = h
        self.flag = False

    def set(self):
        self.flag = True

    def clear(self):
        self.flag = False

    def is_set(self):
        return self.flag

    def wait(self, timeout=None):
        self.h.waits.append(timeout)
        if not self.flag and self.h.on_wait is not None:
            self.h.on_wait(self, timeout)
        return self.flag


class _RecLogger:
    """Stands in for the engine.io logger: records the exceptions that
    engine.io's handler wrapper contained (logger.exception)."""

    def __init__(self, h):
        self.h = h

    def exception(self, msg, *a, **k):
        import sys
        self.h.swallowed.append((msg, sys.exc_info()[1]))

    def _noop(self, *a, **k):
        pass
    debug = info = warning = error = critical = log = _noop

    def isEnabledFor(self, lvl):
        return False


class ServerHarness:
    def __init__(self, aio=False, bg='inline', loop=None, server=None,
                 **kwargs):
        socketio = core.bootstrap()
        self.aio = aio
        self.own_loop = False
        self.loop = loop
        if aio and loop is None:
            self.loop = DetLoop()
            self.own_loop = True
        if server is not None:
            self.sio = server
        elif aio:
            self.sio = socketio.AsyncServer(async_mode='asgi', **kwargs)
        else:
            self.sio = socketio.Server(async_mode='threading', **kwargs)
        self.eio = self.sio.eio
        self.bg_mode = bg            # 'inline' | 'collect'
        self.bg = []
        self.bg_errors = []
        self.waits = []
        self.sleeps = []
        self.on_wait = None
        self.transports = []
        self.eio.start_service_task = False
        self.swallowed = []     # exceptions engine.io contained and logged
        self.framing = {}       # eio sid -> 'ws' | 'polling' (None: not
        #                         emulated)
        self.framing_lost = []
        self.eio.logger = _RecLogger(self)
        self.eio.start_background_task = self._start_bg
        if not aio:
            self.eio.create_event = lambda *a, **k: HEvent(self)
            self.eio.sleep = lambda s=0: self.sleeps.append(s)
        import engineio
        from engineio import packet as eio_packet
        self.eio_packet = eio_packet
        if aio:
            from engineio import async_socket
            self.socket_class = async_socket.AsyncSocket
        else:
            from engineio import socket as eio_socket
            self.socket_class = eio_socket.Socket
        self.reason = engineio.Server.reason

    # -- plumbing ------------------------------------------------------------
    def do(self, x):
        if inspect.isawaitable(x):
            if isinstance(x, BgHandle):
                x.run()
                return x.result
            return self.loop.run(x)
        return x

    def _start_bg(self, target, *args, **kwargs):
        hnd = BgHandle(self, target, args, kwargs)
        name = getattr(target, '__name__', '')
        if self.bg_mode == 'inline' and not self.aio and \
                name not in ('_thread', '_listen', '_emit_server_stats',
                             '_service_task'):
            hnd.run()
        else:
            self.bg.append(hnd)
        return hnd

    def settle(self, order=None):
        """Run collected background tasks (FIFO, or in the generated order)
        until none is left."""
        k = 0
        while True:
            todo = [b for b in self.bg if not b.done and getattr(
                b.target, '__name__', '') not in (
                    '_thread', '_listen', '_emit_server_stats',
                    '_service_task')]
            if not todo:
                break
            i = 0
            if order:
                i = order[k % len(order)] % len(todo)
                k += 1
            todo[i].run()
        self.bg = [b for b in self.bg if not b.done]

    # -- transports ----------------------------------------------------------
    def open(self, environ=None):
        sid = self.eio.generate_id()
        s = self.socket_class(self.eio, sid)
        s.last_ping = None
        self.eio.sockets[sid] = s
        env = environ if environ is not None else {
            'verif.transport': len(self.transports)}
        self.do(self.eio._trigger_event('connect', sid, env,
                                        run_async=False))
        self.transports.append(sid)
        if self.bg_mode == 'inline':
            self.settle()
        return sid

    def socket(self, eio_sid):
        return self.eio.sockets.get(eio_sid)

    def feed(self, eio_sid, data, settle=None):
        """Deliver one engine.io MESSAGE body (str, bytes, or an already
        JSON-sniffed value) from the client."""
        s = self.eio.sockets.get(eio_sid)
        if s is None or s.closed:
            return False
        pkt = self.eio_packet.Packet(self.eio_packet.MESSAGE, data)
        self.do(s.receive(pkt))
        if settle if settle is not None else self.bg_mode == 'inline':
            self.settle()
        return True

    def feed_wire(self, eio_sid, wire):
        """Deliver a frame given at the engine.io wire level: text is
        prefixed with the MESSAGE type and decoded by the real engine.io
        packet decoder (so its JSON sniffing applies); bytes arrive as a
        binary MESSAGE."""
        s = self.eio.sockets.get(eio_sid)
        if s is None or s.closed:
            return False
        if isinstance(wire, bytes):
            pkt = self.eio_packet.Packet(encoded_packet=wire)
        else:
            pkt = self.eio_packet.Packet(encoded_packet='4' + wire)
        self.do(s.receive(pkt))
        if self.bg_mode == 'inline':
            self.settle()
        return True

    def close_then(self, eio_sid, frames):
        """One polling payload: an engine.io CLOSE followed by further
        MESSAGE packets.  engine.io processes the CLOSE (which reports the
        disconnect) and still hands the rest of the payload to the same
        socket object."""
        s = self.eio.sockets.get(eio_sid)
        if s is None or s.closed:
            return False
        self.do(s.receive(self.eio_packet.Packet(self.eio_packet.CLOSE)))
        if self.bg_mode == 'inline':
            self.settle()
        for f in frames:
            self.do(s.receive(self.eio_packet.Packet(
                self.eio_packet.MESSAGE, f)))
            if self.bg_mode == 'inline':
                self.settle()
        if s.closed and eio_sid in self.eio.sockets:
            del self.eio.sockets[eio_sid]
        return True

    def drain(self, eio_sid):
        """All engine.io packets queued for the transport, oldest first, as
        (type, data)."""
        s = self.eio.sockets.get(eio_sid)
        out = []
        if s is None:
            return out
        q = s.queue
        while True:
            try:
                if self.aio:
                    p = q.get_nowait()
                else:
                    p = q.get(block=False)
                q.task_done()
            except Exception:
                break
            if p is None:
                continue
            fr = self.framing.get(eio_sid)
            if fr is not None:
                # what the transport's writer does with the packet object:
                # websocket sends encode(b64=False), a polling response
                # joins encode(b64=True) strings
                enc = p.encode(b64=(fr == 'polling'))
                if fr == 'polling' and not isinstance(enc, str):
                    # the payload cannot be built (TypeError in engine.io):
                    # the packets of this response are lost
                    self.framing_lost.append((eio_sid, p.packet_type))
                    continue
            out.append((p.packet_type, p.data))
        return out

    def drain_msgs(self, eio_sid):
        return [d for t, d in self.drain(eio_sid)
                if t == self.eio_packet.MESSAGE]

    def lose(self, eio_sid, reason=None):
        """Loss of the transport, as engine.io reports it."""
        s = self.eio.sockets.get(eio_sid)
        if s is None:
            return
        self.do(s.close(wait=False, abort=True,
                        reason=reason or self.reason.TRANSPORT_ERROR))
        if self.bg_mode == 'inline':
            self.settle()
        if s.closed and eio_sid in self.eio.sockets:
            del self.eio.sockets[eio_sid]

    def close(self):
        if self.own_loop and self.loop is not None:
            self.loop.shutdown()
            self.loop = None


def decode_frames(packet_class, msgs):
    """Decode the socket.io packets in a drained message list (reassembling
    binary packets). Returns a list of packet objects."""
    out = []
    cur = None
    for m in msgs:
        if cur is not None:
            if cur.add_attachment(m):
                out.append(cur)
                cur = None
            continue
        p = packet_class(encoded_packet=m)
        if p.attachment_count:
            cur = p
        else:
            out.append(p)
    if cur is not None:
        out.append(cur)
    return out
